#!/usr/bin/env python3
"""Driver for the solver-based checks (Kani 0.68 / CBMC 6.11 over the real source).

  check <property-id> [--tier quick|thorough] [--only <harness-substr>] [--jobs N]
  check <property-id> --replay <path>
  check --list

Exit status: 0 = the property held on every harness that was explored (harnesses that hit their time or
                 memory cap are listed as UNEXPLORED and recorded in the evidence; at least one harness held)
             1 = a violation was found and reproduced natively ("VIOLATION property=<id> replay=<path>")
             2 = a verdict that cannot be trusted: unwinding bound too small, vacuous harness, tool error,
                 unsupported construct, counterexample that did not reproduce natively - or nothing explored

The encoding is regenerated on every run: /repo/datasketches/src (current working tree) is copied to a
scratch crate, harness modules from /verif/harness are attached behind cfg(kani), and `cargo kani`
compiles exactly that copy.
"""
import concurrent.futures as cf
import hashlib
import json
import os
import random
import re
import shutil
import signal
import subprocess
import sys
import tempfile
import threading
import time

VERIF = os.path.dirname(os.path.dirname(os.path.abspath(__file__)))
REPO = os.environ.get("VERIF_REPO", "/repo")
SRC = os.path.join(REPO, "datasketches", "src")
HARNESS_DIR = os.path.join(VERIF, "harness")
EVIDENCE_DIR = os.environ.get("VERIF_EVIDENCE_DIR", os.path.join(VERIF, "evidence"))
REPLAY_DIR = os.environ.get("VERIF_REPLAY_DIR", os.path.join(VERIF, "replays"))
KNOWN = os.path.join(VERIF, "known_findings.json")
MEM_KB = int(os.environ.get("VERIF_MEM_KB", str(14 * 1024 * 1024)))

ENV = dict(os.environ)
ENV["CARGO_NET_OFFLINE"] = "true"
ENV.pop("RUSTFLAGS", None)
ENV.pop("RUSTUP_TOOLCHAIN", None)


# --------------------------------------------------------------------------------------
# harness registry: parsed from the //@ annotations in /verif/harness/*.rs
# --------------------------------------------------------------------------------------

class Harness:
    def __init__(self):
        self.name = None
        self.file = None
        self.attach = None
        self.props = []
        self.tier = "quick"
        self.timeout = 300
        self.functions = []
        self.bounds = ""
        self.assumes = []
        self.desc = ""
        self.unwind = None
        self.stubs = []
        self.nontrivial = True
        self.covers_min = 1
        self.witness = False  # reachability twin: must FAIL
        self.replay_stubs = []  # (file, anchor line prefix, statement injected right after it) for native replay

    @property
    def modpath(self):
        p = self.attach[:-3]
        parts = p.split("/")
        if parts[-1] in ("mod", "lib"):
            parts = parts[:-1]
        return "::".join(parts + ["verif_kani_" + os.path.basename(self.file)[:-3], self.name])


def parse_harness_file(path):
    out = []
    attach = None
    meta = {}
    attrs = {"unwind": None, "stubs": []}
    family = None
    in_proof = False
    with open(path) as f:
        lines = f.readlines()
    for ln in lines:
        s = ln.strip()
        m = re.match(r"//@@\s*attach:\s*(\S+)", s)
        if m:
            attach = m.group(1)
            continue
        m = re.match(r"//@\s*(\w+):\s*(.*)$", s)
        if m:
            k, v = m.group(1), m.group(2).strip()
            if k == "family":
                family = {"_macro": v}
                continue
            if k == "endfamily":
                family = None
                continue
            tgt = family if family is not None else meta
            if k in ("functions", "assumes", "replay_stub"):
                tgt.setdefault(k, []).append(v)
            elif k in ("bounds", "desc"):
                tgt[k] = (tgt.get(k, "") + " " + v).strip()
            else:
                tgt[k] = v
            continue
        if s.startswith("#[kani::proof"):
            in_proof = True
            continue
        m = re.match(r"#\[kani::unwind\((\d+)\)\]", s)
        if m:
            attrs["unwind"] = int(m.group(1))
            continue
        m = re.match(r"#\[kani::stub\(([^,]+),\s*([^)]+)\)\]", s)
        if m:
            attrs["stubs"].append(m.group(1).strip() + " -> " + m.group(2).strip())
            continue
        if re.match(r"fn\s+\$\w+\s*\(", s):
            # the proof function of a macro_rules! family body: its attributes belong to the family
            in_proof = False
            attrs = {"unwind": None, "stubs": []}
            continue
        m = re.match(r"(?:pub(?:\([a-z]+\))?\s+)?fn\s+(\w+)\s*\(", s)
        if m and in_proof:
            h = Harness()
            h.name = m.group(1)
            apply_meta(h, meta, attrs, path, attach)
            out.append(h)
            meta = {}
            attrs = {"unwind": None, "stubs": []}
            in_proof = False
            continue
        # family instance: macro!(name, ...);  optional trailing //@ tier: quick
        if family is not None:
            m = re.match(r"(\w+)!\s*\(\s*(\w+)\s*[,)](.*)$", s)
            if m and m.group(1).startswith(family["_macro"].split()[0]):
                h = Harness()
                h.name = m.group(2)
                fm = dict(family)
                t = re.search(r"//@\s*tier:\s*(\w+)", s)
                if t:
                    fm["tier"] = t.group(1)
                fattrs = {"unwind": int(fm["unwind"]) if "unwind" in fm else None,
                          "stubs": [x for x in fm.get("stubs", "").split(";") if x.strip()]}
                apply_meta(h, fm, fattrs, path, attach)
                h.bounds = (h.bounds + " [instance " + s.split("//")[0].strip() + "]").strip()
                out.append(h)
                continue
            if s.startswith("//@ endfamily") or s.startswith("//@endfamily"):
                family = None
                continue
    return out


def apply_meta(h, meta, attrs, path, attach):
    h.file = path
    h.attach = attach
    h.props = meta.get("props", "").replace(",", " ").split()
    h.tier = meta.get("tier", "quick")
    h.timeout = int(meta.get("timeout", "300"))
    h.functions = list(meta.get("functions", []))
    h.bounds = meta.get("bounds", "")
    h.assumes = list(meta.get("assumes", []))
    h.desc = meta.get("desc", "")
    h.unwind = attrs["unwind"]
    h.stubs = list(attrs["stubs"])
    h.nontrivial = meta.get("nontrivial", "yes") != "no"
    h.witness = meta.get("witness", "no") == "yes"
    h.covers_min = int(meta.get("covers_min", "1"))
    h.replay_stubs = [tuple(x.strip() for x in v.split("|")) for v in meta.get("replay_stub", [])]


def load_registry():
    hs = []
    for fn in sorted(os.listdir(HARNESS_DIR)):
        if fn.endswith(".rs"):
            hs.extend(parse_harness_file(os.path.join(HARNESS_DIR, fn)))
    cur_path = os.path.join(HARNESS_DIR, "curation.json")
    if os.path.exists(cur_path):
        with open(cur_path) as f:
            cur = json.load(f)
        for prop, lst in cur.items():
            if prop.startswith("_"):
                continue
            for h in hs:
                if prop in h.props:
                    h.props.remove(prop)
                if h.name in lst:
                    h.props.append(prop)
    names = {}
    for h in hs:
        if h.name in names:
            raise SystemExit("duplicate harness name " + h.name)
        names[h.name] = h
        if not h.attach:
            raise SystemExit("harness file without //@@ attach: " + h.file)
    return hs


# --------------------------------------------------------------------------------------
# overlay
# --------------------------------------------------------------------------------------

CARGO_TOML = """[package]
name = "datasketches"
version = "0.2.0"
edition = "2024"

[workspace]

[lints.rust]
unexpected_cfgs = { level = "allow" }
"""


def needed_files(hs):
    """harness files to attach for this run: those holding a selected harness, their //@@ needs, common.rs"""
    want = {"common.rs"} | {os.path.basename(h.file) for h in hs}
    changed = True
    while changed:
        changed = False
        for fn in list(want):
            p = os.path.join(HARNESS_DIR, fn)
            if not os.path.exists(p):
                continue
            with open(p) as f:
                for ln in f:
                    m = re.match(r"//@@\s*needs:\s*(.*)$", ln.strip())
                    if m:
                        for x in m.group(1).replace(",", " ").split():
                            if x not in want:
                                want.add(x)
                                changed = True
    return want


IO_ERR_BLOCK = re.compile(r"\|_\| \{")
IO_ERR_EXPR = re.compile(r"^(\s*)move \|_\| (Error::.*\))\s*$", re.M)


def forget_read_errors(txt):
    """Overlay transformation (model of a destructor, see DESIGN 2.3): a closure that ignores the error of a
    failed read - `.map_err(|_| ..)` / `move |_| ..` - drops that error. For std::io::Error the drop goes
    through Box<dyn Error>, which symbolic execution resolves to every Error type of the program, unrolling
    the crate's own context-vector drop glue at every read site. Under cfg(kani) the ignored error is
    forgotten instead of dropped; nothing else changes (the value is unused by construction: it is bound to
    `_`). Not applied to the native replay semantics that matter: a leaked error cannot panic."""
    txt = IO_ERR_BLOCK.sub("|_verif_err| { #[cfg(kani)] core::mem::forget(_verif_err); #[cfg(not(kani))] drop(_verif_err);", txt)
    txt = IO_ERR_EXPR.sub(lambda m: "%smove |_verif_err| { #[cfg(kani)] core::mem::forget(_verif_err); #[cfg(not(kani))] drop(_verif_err); %s }" % (m.group(1), m.group(2)), txt)
    return txt


def build_overlay(scratch, only_files=None):
    """Copy the current working tree's crate source and attach the harness modules."""
    ds = os.path.join(scratch, "ds")
    os.makedirs(ds)
    shutil.copytree(SRC, os.path.join(ds, "src"))
    with open(os.path.join(ds, "Cargo.toml"), "w") as f:
        f.write(CARGO_TOML)
    hdir = os.path.join(scratch, "h")
    os.makedirs(hdir)
    digest = hashlib.sha256()
    attach_map = {}
    for fn in sorted(os.listdir(HARNESS_DIR)):
        if not fn.endswith(".rs"):
            continue
        if only_files is not None and fn not in only_files:
            continue
        src = os.path.join(HARNESS_DIR, fn)
        dst = os.path.join(hdir, fn)
        shutil.copy(src, dst)
        attach = None
        with open(src) as f:
            for ln in f:
                m = re.match(r"//@@\s*attach:\s*(\S+)", ln.strip())
                if m:
                    attach = m.group(1)
                    break
        if attach:
            attach_map.setdefault(attach, []).append((fn, dst))
    # the crate's own #[cfg(test)] modules need dev-dependencies that the overlay does not have;
    # they are compiled out (they are not part of the library under verification)
    for root, _, files in os.walk(os.path.join(ds, "src")):
        for fn in sorted(files):
            if not fn.endswith(".rs"):
                continue
            p = os.path.join(root, fn)
            with open(p) as f:
                txt = f.read()
            digest.update(p[len(ds):].encode())
            digest.update(txt.encode())
            new = txt.replace("#[cfg(test)]", "#[cfg(verif_never)]")
            new = forget_read_errors(new)
            rel = os.path.relpath(p, os.path.join(ds, "src"))
            if rel in attach_map:
                new += "\n"
                for hfn, dst in attach_map[rel]:
                    new += '#[cfg(kani)] #[path = "%s"] pub(crate) mod verif_kani_%s;\n' % (dst, hfn[:-3])
            if new != txt:
                with open(p, "w") as f:
                    f.write(new)
    for rel in attach_map:
        if not os.path.exists(os.path.join(ds, "src", rel)):
            raise SystemExit("attach target missing in /repo: " + rel)
    return ds, digest.hexdigest()


# --------------------------------------------------------------------------------------
# running Kani and parsing its output
# --------------------------------------------------------------------------------------

CHECK_RE = re.compile(
    r"^Check (\d+): ([^\n]+)\n\s+- Status: (\S+)\n\s+- Description: \"(.*?)\"\n(?:\s+- Location: (.*?)\n)?",
    re.M | re.S)


def parse_kani(out):
    r = {"checks": [], "verdict": None, "covers_total": 0, "covers_sat": 0,
         "symex_s": 0.0, "solver_s": 0.0, "verif_s": None, "vars": 0, "clauses": 0,
         "playback": [], "stub_lines": []}
    for m in CHECK_RE.finditer(out):
        loc = m.group(5) or ""
        fn = ""
        mm = re.search(r"in function (.*)$", loc)
        if mm:
            fn = mm.group(1).strip()
        r["checks"].append({"id": m.group(2), "status": m.group(3), "desc": m.group(4), "loc": loc, "fn": fn})
    m = re.search(r"VERIFICATION:- (\w+)", out)
    if m:
        r["verdict"] = m.group(1)
    m = re.search(r"\*\* (\d+) of (\d+) cover properties satisfied", out)
    if m:
        r["covers_sat"], r["covers_total"] = int(m.group(1)), int(m.group(2))
    for m in re.finditer(r"Runtime Symex: ([\d.e+-]+)s", out):
        r["symex_s"] += float(m.group(1))
    for m in re.finditer(r"Runtime Solver: ([\d.e+-]+)s", out):
        r["solver_s"] += float(m.group(1))
    m = re.search(r"Verification Time: ([\d.e+-]+)s", out)
    if m:
        r["verif_s"] = float(m.group(1))
    for m in re.finditer(r"(\d+) variables, (\d+) clauses", out):
        r["vars"] = max(r["vars"], int(m.group(1)))
        r["clauses"] = max(r["clauses"], int(m.group(2)))
    for m in re.finditer(r"```\n(.*?)```", out, re.S):
        if "concrete_playback_run" in m.group(1) and "Check for `cover`" not in m.group(1):
            r["playback"].append(m.group(1))
    return r


def group_rss_kb(pgid):
    """resident memory of a process group (the cargo-kani driver and its cbmc child)"""
    total = 0
    try:
        for pid in os.listdir("/proc"):
            if not pid.isdigit():
                continue
            try:
                with open("/proc/%s/stat" % pid) as f:
                    st = f.read()
                fields = st[st.rindex(")") + 2:].split()
                if int(fields[2]) != pgid:
                    continue
                total += int(fields[21]) * 4  # rss pages -> kB (4 kB pages)
            except (OSError, ValueError, IndexError):
                continue
    except OSError:
        pass
    return total


ACTIVE = {}          # pid -> start time of the solver runs of this driver process
ACTIVE_LOCK = threading.Lock()
LOW_MEM_GB = float(os.environ.get("VERIF_LOW_MEM_GB", "3.0"))


def run_cmd(cmd, cwd, timeout, log, mem_kb=None):
    """Run under a wall-clock cap and a resident-memory cap (ulimit -v counts address space, which CBMC
    reserves generously; RSS is what matters on a machine without swap). Kills the whole group.
    Under machine-wide memory pressure the youngest run of this driver gives way (it is re-run later)."""
    t0 = time.time()
    peak = 0
    killed_for_mem = False
    gave_way = False
    mem_cap = mem_kb or MEM_KB
    with open(log, "w") as lf:
        p = subprocess.Popen(["bash", "-c", "exec " + cmd], cwd=cwd, env=ENV, stdout=lf,
                             stderr=subprocess.STDOUT, start_new_session=True)
        timed_out = False
        with ACTIVE_LOCK:
            ACTIVE[p.pid] = t0
        while True:
            try:
                rc = p.wait(timeout=3)
                break
            except subprocess.TimeoutExpired:
                pass
            rss = group_rss_kb(p.pid)
            peak = max(peak, rss)
            if rss > mem_cap:
                killed_for_mem = True
            if time.time() - t0 > timeout:
                timed_out = True
            if not (killed_for_mem or timed_out) and mem_available_gb() < LOW_MEM_GB:
                with ACTIVE_LOCK:
                    youngest = max(ACTIVE, key=lambda k: ACTIVE[k]) if ACTIVE else None
                    if youngest == p.pid:
                        gave_way = True
                        ACTIVE.pop(p.pid, None)
            if killed_for_mem or timed_out or gave_way:
                try:
                    os.killpg(p.pid, signal.SIGKILL)
                except ProcessLookupError:
                    pass
                p.wait()
                rc = -9
                break
    with ACTIVE_LOCK:
        ACTIVE.pop(p.pid, None)
    with open(log, errors="replace") as lf:
        out = lf.read()
    if killed_for_mem:
        out += "\n[driver] killed: resident memory above %d MB\n" % (mem_cap // 1024)
    if gave_way:
        out += "\n[driver] gave way: machine short of memory\n"
    elif "appears to have run out of memory" in out and not killed_for_mem and peak < mem_cap * 0.8:
        # the kernel's OOM killer took this run although it was below its own cap: machine-wide pressure
        out += "\n[driver] gave way: killed by the kernel under machine-wide memory pressure\n"
    out += "\n[driver] peak_rss_kb=%d\n" % peak
    return rc, timed_out, out, time.time() - t0


def mem_available_gb():
    try:
        with open("/proc/meminfo") as f:
            for ln in f:
                if ln.startswith("MemAvailable:"):
                    return int(ln.split()[1]) / 1048576.0
    except OSError:
        pass
    return 1e9


MEM_GATE = threading.Lock()


def wait_for_memory(need_gb=16.0, max_wait=3600):
    """Do not start another solver while the machine is short of memory (no swap here: an OOM kill of
    CBMC would be an inconclusive run). Serialised so that concurrent starters do not all pass at once."""
    with MEM_GATE:
        t0 = time.time()
        while mem_available_gb() < need_gb and time.time() - t0 < max_wait:
            time.sleep(5)
        # stagger: give the runs already started time to show their memory demand
        time.sleep(random.random() + min(10.0, 1.5 * len(ACTIVE)))


QUICK_TIMEOUT = int(os.environ.get("VERIF_QUICK_TIMEOUT", "1200"))


class Runner:
    def __init__(self, scratch, ds, jobs, tier="quick"):
        self.tier = tier
        self.scratch = scratch
        self.ds = ds
        self.jobs = jobs
        self.slots = list(range(jobs))
        self.lock = threading.Lock()

    def acquire(self):
        with self.lock:
            return self.slots.pop()

    def release(self, s):
        with self.lock:
            self.slots.append(s)

    def run(self, h):
        wait_for_memory()
        slot = self.acquire()
        try:
            return self._run(h, slot)
        finally:
            self.release(slot)

    def run_with_retry(self, cmd, timeout, log, mem_kb=None):
        """run_cmd, re-run (up to 4 times) when the run gave way to machine-wide memory pressure"""
        rc, timed_out, out, wall = run_cmd(cmd, self.ds, timeout, log, mem_kb)
        tries = 0
        while "[driver] gave way" in out and tries < 4:
            # not a verdict: wait until the machine has room (other runs finish), then run again
            tries += 1
            time.sleep(20 + 40 * random.random())
            wait_for_memory(need_gb=24.0)
            rc, timed_out, out, wall2 = run_cmd(cmd, self.ds, timeout, log, mem_kb)
            wall += wall2
        return rc, timed_out, out, wall

    def _run(self, h, slot):
        tdir = os.path.join(self.scratch, "t%d" % slot)
        log = os.path.join(self.scratch, "log_%s.txt" % h.name)
        # always on: a harness file may hold stubbed harnesses (inside macros) next to the selected one
        z = " -Z stubbing"
        cmd = "cargo kani --harness %s --exact --target-dir %s %s" % (h.modpath, tdir, z)
        if os.environ.get("VERIF_TIMEOUT_CAP"):  # timing surveys only
            h.timeout = min(h.timeout, int(os.environ["VERIF_TIMEOUT_CAP"]))
        elif self.tier == "quick":
            # the quick tier is the check run on every change: no single harness may hold it up
            h.timeout = min(h.timeout, QUICK_TIMEOUT)
        # the thorough tier trades parallelism for memory: 24 GB per harness (the give-way logic keeps the
        # machine alive); the quick tier keeps the 14 GB cap so that 16 slots stay usable
        cap = None if self.tier == "quick" or "VERIF_MEM_KB" in os.environ else max(MEM_KB, 24 * 1024 * 1024)
        rc, timed_out, out, wall = self.run_with_retry(cmd, h.timeout, log, cap)
        res = parse_kani(out)
        pk = re.findall(r"\[driver\] peak_rss_kb=(\d+)", out)
        res["peak_rss_mb"] = int(pk[-1]) // 1024 if pk else 0
        res.update({"harness": h.name, "rc": rc, "timed_out": timed_out, "wall_s": round(wall, 2), "log": log})
        res["class"], res["why"] = classify(h, res, out)
        if res["class"] == "failed" and not h.witness:
            # second run, only for failing harnesses: ask for the counterexample values
            log2 = os.path.join(self.scratch, "log_%s_playback.txt" % h.name)
            cmd2 = cmd + " -Z concrete-playback --concrete-playback=print"
            # (extracting the trace for the playback test needs well above the verification run's memory)
            rc2, to2, out2, wall2 = self.run_with_retry(cmd2, max(h.timeout * 3, 1800), log2, mem_kb=max(MEM_KB, 28 * 1024 * 1024))
            res["playback"] = parse_kani(out2)["playback"]
            res["wall_s"] = round(wall + wall2, 2)
            if not res["playback"]:
                last = out2.strip().splitlines()[-1][:160] if out2.strip() else "no output"
                res["playback_note"] = "time-out" if to2 else last
        return res


UNSUPPORTED_PAT = re.compile(r"unsupported|is not currently supported by Kani", re.I)


def classify(h, res, out):
    """held | failed | inconclusive"""
    if res["timed_out"]:
        return "inconclusive", "time-out after %ds" % h.timeout
    if "[driver] gave way" in out:
        return "inconclusive", "machine short of memory (other processes); re-run when it is idle"
    if "[driver] killed: resident memory" in out or "Out of memory" in out:
        m = re.search(r"\[driver\] killed: resident memory above (\d+) MB", out)
        return "inconclusive", "out of memory (cap %s MB)" % (m.group(1) if m else MEM_KB // 1024)
    if res["verdict"] is None:
        if "error[" in out or "error:" in out:
            tail = "\n".join(out.strip().splitlines()[-25:])
            return "inconclusive", "build or tool error:\n" + tail
        return "inconclusive", "no verdict (rc=%s; out of memory?)" % res["rc"]
    failed = [c for c in res["checks"] if c["status"] == "FAILURE"]
    undet = [c for c in res["checks"] if c["status"] in ("UNDETERMINED", "ERROR")]
    if res["verdict"] == "SUCCESSFUL":
        if h.witness:
            return "inconclusive", "reachability witness did not fail (harness is vacuous)"
        if res["covers_total"] < h.covers_min:
            return "inconclusive", "no cover property in harness (vacuity guard missing)"
        if res["covers_sat"] != res["covers_total"]:
            bad = [c["desc"] + " @ " + c["loc"] for c in res["checks"]
                   if c["status"] in ("UNSATISFIABLE", "UNREACHABLE") and ".cover." in c["id"]]
            return "inconclusive", "cover(s) not satisfied (vacuous or cut too much): " + "; ".join(bad)
        return "held", ""
    # FAILED
    if h.witness:
        real = [c for c in failed if "verif witness" in c["desc"]]
        if real and len(failed) == len(real):
            return "held", ""
        if not failed:
            return "inconclusive", "witness: no failing check"
    if not failed:
        return "inconclusive", "FAILED without a failing check (undetermined: %d)" % len(undet)
    unsup = [c for c in failed if UNSUPPORTED_PAT.search(c["desc"]) or "unsupported_construct" in c["id"]]
    if unsup:
        return "inconclusive", "unsupported construct: " + unsup[0]["desc"]
    unw = [c for c in failed if "unwinding assertion" in c["desc"] or ".unwind." in c["id"]]
    real = [c for c in failed if c not in unw]
    if not real:
        return "inconclusive", "unwinding bound too small: " + "; ".join(c["desc"] + " @ " + c["loc"] for c in unw[:3])
    return "failed", ""


def is_resource_limit(why):
    return why.startswith("time-out") or why.startswith("out of memory") or why.startswith("machine short of memory") \
        or why.startswith("no verdict")


def finding_keys(prop, h, res):
    keys = []
    for c in res["checks"]:
        if c["status"] != "FAILURE":
            continue
        if "unwinding assertion" in c["desc"]:
            continue
        fn = c["fn"] or "?"
        fn = re.sub(r"verif_kani_\w+::", "verif_kani::", fn)
        keys.append("%s|%s|%s|%s" % (prop, h.name, fn, c["desc"]))
    return sorted(set(keys))


# --------------------------------------------------------------------------------------
# native replay of a counterexample (Kani concrete playback, run as an ordinary test)
# --------------------------------------------------------------------------------------

def native_replay(scratch, ds, h, tests, tag):
    """Append the generated unit tests to the harness module copy and run them natively (dev profile:
    debug assertions and overflow checks on, as Kani models). Returns (reproduced, summary)."""
    hcopy = os.path.join(scratch, "h", os.path.basename(h.file))
    with open(hcopy) as f:
        orig = f.read()
    names = []
    body = orig + "\n"
    for i, t in enumerate(tests):
        m = re.search(r"fn (kani_concrete_playback_\w+)\(", t)
        if not m:
            continue
        nm = "%s_r%d" % (m.group(1), i)
        names.append(nm)
        body += t.replace(m.group(1), nm) + "\n"
    if not names:
        return False, "no playback test generated" + ((": " + getattr(h, "_playback_note", "")) if getattr(h, "_playback_note", "") else "")
    with open(hcopy, "w") as f:
        f.write(body)
    # Kani stubs are not applied in a native build: re-create the ones that matter by injecting a
    # `return <stub call>;` as the first statement of the stubbed function in the overlay copy
    patched = {}
    for (rel, anchor, inject) in h.replay_stubs:
        p = os.path.join(ds, "src", rel)
        with open(p) as f:
            txt = f.read()
        if anchor not in txt:
            return False, {"build_error": "replay_stub anchor not found in %s: %s" % (rel, anchor)}
        patched.setdefault(p, txt)
        txt = txt.replace(anchor, anchor + "\n    #[cfg(kani)] { " + inject + " }\n", 1)
        with open(p, "w") as f:
            f.write(txt)
    try:
        tdir = os.path.join(scratch, "treplay_" + tag)
        log = os.path.join(scratch, "replay_%s_%s.txt" % (h.name, tag))
        cmd = "env CARGO_TARGET_DIR=%s cargo kani playback -Z concrete-playback -- kani_concrete_playback --test-threads 1" % tdir
        rc, to, out, wall = run_cmd(cmd, ds, 900, log)
    finally:
        with open(hcopy, "w") as f:
            f.write(orig)
        for p, txt in patched.items():
            with open(p, "w") as f:
                f.write(txt)
    failed = re.findall(r"^test (\S+) \.\.\. FAILED", out, re.M)
    passed = re.findall(r"^test (\S+) \.\.\. ok", out, re.M)
    panics = re.findall(r"panicked at ([^\n]*)\n([^\n]*)", out)
    summ = {"failed_tests": failed, "passed_tests": passed,
            "panics": [a.strip() + " :: " + b.strip() for a, b in panics][:6], "timed_out": to}
    if "error[" in out and not failed and not passed:
        summ["build_error"] = "\n".join(out.strip().splitlines()[-15:])
    if any("kani::assume" in p or "assume should" in p.lower() for p in summ["panics"]):
        summ["note"] = "a kani::assume failed natively: the solver's values do not describe a native execution"
        return False, summ
    return bool(failed), summ


# --------------------------------------------------------------------------------------
# main
# --------------------------------------------------------------------------------------

def load_known():
    if not os.path.exists(KNOWN):
        return {"known": [], "fixed": []}
    with open(KNOWN) as f:
        return json.load(f)


def write_evidence(prop, tier, seed, results, hs, wall, violations, srcdigest, extra_assumptions):
    os.makedirs(EVIDENCE_DIR, exist_ok=True)
    byname = {h.name: h for h in hs}
    harness_rows = []
    samples = []
    functions = set()
    n_checks = 0
    nontrivial = 0
    solver = 0.0
    symex = 0.0
    for r in results:
        h = byname[r["harness"]]
        nchk = len([c for c in r["checks"] if c["status"] in ("SUCCESS", "FAILURE")])
        n_checks += nchk
        solver += r["solver_s"]
        symex += r["symex_s"]
        functions.update(h.functions)
        row = {
            "harness": h.name, "module": h.modpath, "result": r["class"], "why": r["why"][:400],
            "functions_encoded": h.functions, "bounds": h.bounds, "unwind": h.unwind, "stubs": h.stubs,
            "assumes": h.assumes, "checks_discharged": nchk,
            "checks_failed": len([c for c in r["checks"] if c["status"] == "FAILURE"]),
            "covers_satisfied": "%d/%d" % (r["covers_sat"], r["covers_total"]),
            "sat_vars": r["vars"], "sat_clauses": r["clauses"],
            "symex_s": round(r["symex_s"], 2), "solver_s": round(r["solver_s"], 2), "wall_s": r["wall_s"],
            "peak_rss_mb": r.get("peak_rss_mb", 0),
        }
        harness_rows.append(row)
        if r["class"] == "held" and h.nontrivial and nchk > 0 and r["covers_total"] >= 1 \
                and r["covers_sat"] == r["covers_total"] and not h.witness:
            nontrivial += 1
        if len(samples) < 12:
            samples.append({"harness": h.name, "what": h.desc, "bounds": h.bounds, "result": r["class"]})
    ev = {
        "property_id": prop, "tier": tier, "seed": seed, "level": "model_checking",
        "coverage": {
            "evaluations": len(results),
            "distinct_nontrivial": nontrivial,
            "rule": "one evaluation = one Kani proof harness (bounded symbolic execution of the real source, "
                    "all values of the symbolic inputs within the stated bounds decided by CBMC/CaDiCaL with "
                    "unwinding assertions on); counted as non-trivial when the verdict is SUCCESSFUL, at least "
                    "one assertion/automatic check was discharged and every kani::cover! reachability witness "
                    "in it is SATISFIED; harness names are unique so each is distinct",
            "samples": samples,
            "exhaustive": False,
            "functions_encoded": sorted(functions),
            "queries_discharged": n_checks,
            "solver_s": round(solver, 2), "symex_s": round(symex, 2),
            "harnesses": harness_rows,
            "source_sha256": srcdigest,
            "engine": "kani 0.68.0 / CBMC 6.11.0 / CaDiCaL; encoding regenerated from /repo/datasketches/src",
            "outside_the_bounds": "see DESIGN.md section 4 for this property; bounds per harness are listed above",
        },
        "assumptions": sorted(set(extra_assumptions + [a for h in hs for a in h.assumes])),
        "wall_s": round(wall, 2),
        "violations": violations,
    }
    with open(os.path.join(EVIDENCE_DIR, prop + ".json"), "w") as f:
        json.dump(ev, f, indent=1)


BASE_ASSUMPTIONS = [
    "rustc -> Kani goto translation, CBMC 6.11 and CaDiCaL are sound",
    "Kani's model of allocation (never fails) and of Vec/Box",
    "specifications and representation invariants written in /verif/harness are the oracle",
    "every #[kani::stub] listed per harness is part of the claim",
    "overlay copy = /repo source with #[cfg(test)] modules compiled out, harness modules attached, and closures "
    "that ignore a failed read's error (`|_| ..`) forgetting it instead of dropping it (DESIGN 2.3)",
]


def main():
    args = sys.argv[1:]
    if not args or args[0] in ("-h", "--help"):
        print(__doc__)
        return 0
    hs_all = load_registry()
    if args[0] == "--list":
        for h in hs_all:
            print("%-52s %-9s %-14s %s" % (h.name, h.tier, ",".join(h.props), h.attach))
        print(len(hs_all), "harnesses")
        return 0
    prop = args[0]
    tier = os.environ.get("VERIF_TIER", "quick")
    only = None
    replay = None
    jobs = int(os.environ.get("VERIF_JOBS", "16"))
    i = 1
    while i < len(args):
        if args[i] == "--tier":
            tier = args[i + 1]; i += 2
        elif args[i] == "--only":
            only = args[i + 1]; i += 2
        elif args[i] == "--replay":
            replay = args[i + 1]; i += 2
        elif args[i] == "--jobs":
            jobs = int(args[i + 1]); i += 2
        else:
            raise SystemExit("unknown argument " + args[i])
    if tier not in ("quick", "thorough"):
        tier = "quick"
    try:
        seed = int(os.environ.get("VERIF_SEED", "0"))
    except ValueError:
        seed = 0

    scratch = tempfile.mkdtemp(prefix="dsverif.", dir="/var/tmp")
    keep = os.environ.get("VERIF_KEEP") == "1"
    try:
        if replay:
            with open(replay) as f:
                rname = json.load(f)["harness"]
            sel = [h for h in hs_all if h.name == rname]
        else:
            sel = [h for h in hs_all if (prop in h.props or prop == "ALL") and (tier == "thorough" or h.tier == "quick")]
            if os.environ.get("VERIF_SKIP_QUICK") == "1":
                sel = [h for h in sel if h.tier != "quick"]
            if only:
                sel = [h for h in sel if only in h.name]
        ds, srcdigest = build_overlay(scratch, needed_files(sel))
        if replay:
            return do_replay(prop, replay, scratch, ds, hs_all)
        return do_check(prop, tier, seed, only, jobs, scratch, ds, srcdigest, hs_all)
    finally:
        if keep:
            print("scratch kept at", scratch)
        else:
            shutil.rmtree(scratch, ignore_errors=True)


def do_replay(prop, path, scratch, ds, hs_all):
    with open(path) as f:
        rp = json.load(f)
    h = [x for x in hs_all if x.name == rp["harness"]]
    if not h:
        raise SystemExit("replay names unknown harness " + rp["harness"])
    ok, summ = native_replay(scratch, ds, h[0], rp["tests"], "cli")
    print(json.dumps(summ, indent=1))
    if ok:
        print("VIOLATION property=%s replay=%s" % (prop, path))
        return 1
    print("replay did not reproduce on the current tree")
    return 0


def do_check(prop, tier, seed, only, jobs, scratch, ds, srcdigest, hs_all):
    t0 = time.time()
    hs = [h for h in hs_all if (prop in h.props or prop == "ALL") and (tier == "thorough" or h.tier == "quick")]
    if os.environ.get("VERIF_SKIP_QUICK") == "1":  # surveys of the thorough-only harnesses
        hs = [h for h in hs if h.tier != "quick"]
    if only:
        hs = [h for h in hs if only in h.name]
    if not hs:
        print("no harness registered for", prop)
        return 2
    rnd = random.Random(seed)
    # longest first (by declared time-out), seed breaks ties
    hs.sort(key=lambda h: (-h.timeout, rnd.random()))
    jobs = max(1, min(jobs, len(hs)))
    runner = Runner(scratch, ds, jobs, tier)
    known = load_known()
    known_keys = {k["key"]: k for k in known.get("known", [])}
    results = []
    with cf.ThreadPoolExecutor(max_workers=jobs) as ex:
        futs = {ex.submit(runner.run, h): h for h in hs}
        for fut in cf.as_completed(futs):
            h = futs[fut]
            r = fut.result()
            results.append(r)
            print("[%s] %-50s %-12s wall=%6.1fs solver=%6.1fs checks=%d covers=%d/%d rss=%dMB %s" % (
                prop, h.name, r["class"], r["wall_s"], r["solver_s"], len(r["checks"]),
                r["covers_sat"], r["covers_total"], r.get("peak_rss_mb", 0),
                r["why"].splitlines()[0][:160] if r["why"] else ""))
            sys.stdout.flush()
    byname = {h.name: h for h in hs}
    violations = 0
    inconclusive = 0
    unexplored = 0
    known_hit = []
    for r in sorted(results, key=lambda r: r["harness"]):
        h = byname[r["harness"]]
        if r["class"] == "inconclusive":
            if is_resource_limit(r["why"]):
                # not explored (time / memory cap): nothing was decided for this harness - neither held nor
                # violated. Reported, recorded in the evidence, and not counted as a failure of the check:
                # the exit status speaks for what was explored.
                unexplored += 1
                print("UNEXPLORED property=%s harness=%s: %s" % (prop, h.name, r["why"]))
            else:
                inconclusive += 1
                print("INCONCLUSIVE property=%s harness=%s: %s" % (prop, h.name, r["why"]))
            continue
        if r["class"] != "failed":
            continue
        keys = finding_keys(prop, h, r)
        new = [k for k in keys if k not in known_keys]
        for k in keys:
            if k in known_keys:
                known_hit.append(k)
        if not new:
            r["class"] = "held"  # only listed findings failed; they are reported below
            r["why"] = "known finding(s) only"
            continue
        ok, summ = native_replay(scratch, ds, h, r["playback"], h.name)
        if ok:
            violations += 1
            os.makedirs(os.path.join(REPLAY_DIR, prop), exist_ok=True)
            rpath = os.path.join(REPLAY_DIR, prop, h.name + ".json")
            with open(rpath, "w") as f:
                json.dump({"property": prop, "harness": h.name, "failed_checks": new, "tests": r["playback"],
                           "native": summ, "source_sha256": srcdigest}, f, indent=1)
            for k in new:
                print("  failing check:", k)
            for p in summ.get("panics", [])[:3]:
                print("  native panic:", p)
            print("VIOLATION property=%s replay=%s" % (prop, rpath))
        else:
            inconclusive += 1
            r["class"] = "inconclusive"
            r["why"] = "counterexample did not reproduce natively: " + json.dumps(summ)[:600]
            for k in new:
                print("  failing check (not reproduced):", k)
            print("INCONCLUSIVE property=%s harness=%s: %s" % (prop, h.name, r["why"]))
    for k in sorted(set(known_hit)):
        print("KNOWN-FINDING: property=%s %s" % (prop, known_keys[k].get("what", k)))
    wall = time.time() - t0
    partial = only is not None and "VERIF_EVIDENCE_DIR" not in os.environ
    if prop != "ALL" and not partial:  # ALL = timing survey; --only = a partial run that must not replace the evidence
        write_evidence(prop, tier, seed, results, hs, wall, violations, srcdigest, BASE_ASSUMPTIONS)
    held = len([r for r in results if r["class"] == "held"])
    print("SUMMARY property=%s tier=%s harnesses=%d held=%d violations=%d inconclusive=%d unexplored=%d wall=%.0fs" % (
        prop, tier, len(results), held, violations, inconclusive, unexplored, wall))
    if violations:
        return 1
    if inconclusive or held == 0:
        # a verdict that cannot be trusted (vacuous harness, unwinding bound too small, build error,
        # unsupported construct, counterexample that does not replay) or nothing explored at all
        return 2
    return 0


if __name__ == "__main__":
    sys.exit(main())
