#!/usr/bin/env python3
"""Regenerates MANIFEST.json from the table below (kept in one place so it is always schema-valid)."""
import json, os, sys
VERIF = os.path.dirname(os.path.dirname(os.path.abspath(__file__)))
sys.path.insert(0, os.path.join(VERIF, "lib"))
import driver

TECH = "bounded symbolic execution of the real Rust source (Kani 0.68 proof harnesses -> CBMC 6.11 -> CaDiCaL SAT), counterexamples replayed natively"

# property -> (claim text, level note, design ref)
CLAIMS = {
 "C05": ("Within the bounds listed per harness in the evidence file, CBMC decides for every value of the symbolic inputs that the CPC flavor/offset arithmetic equals its 64-bit specification and that one update step / table operation maintains the coupon-set model; a bounded claim, not a proof for all lg_k states.",
         "Trusted: rustc->Kani->CBMC translation, CaDiCaL, the specifications and representation invariants in /verif/harness/cpc_*.rs; register state at lg_k=4 only, arithmetic for all lg_k.",
         "DESIGN.md section 4 C05"),
}
NOT_APPLICABLE = {
}

def main():
    hs = driver.load_registry()
    props = sorted({p for h in hs for p in h.props})
    checks = []
    for p in sorted(CLAIMS):
        if p not in props:
            continue
        text, note, ref = CLAIMS[p]
        checks.append({
            "property_id": p,
            "quick_cmd": "./check %s --tier quick" % p,
            "thorough_cmd": "./check %s --tier thorough" % p,
            "evidence_file": "/verif/evidence/%s.json" % p,
            "replay_cmd_template": "./check %s --replay {path}" % p,
            "engine": "kani-cbmc",
            "level_claimed": {"category": "model_checking", "text": text, "design_ref": ref},
            "level_note": note,
            "technique": TECH,
        })
    all_ids = [json.loads(l)["id"] for l in open(os.path.join(VERIF, "properties.jsonl"))]
    na = []
    for p in all_ids:
        if p in [c["property_id"] for c in checks]:
            continue
        na.append({"property_id": p, "reason": NOT_APPLICABLE.get(p, "no check registered yet in this round (harnesses under construction); nothing is claimed")})
    man = {
        "version": 1,
        "setup_cmd": "true",
        "hooks": {
            "guard": "cfg(kani) in a scratch overlay copy of /repo/datasketches/src (no hook is committed to /repo)",
            "enable": "each check copies /repo/datasketches/src to /var/tmp/dsverif.*/ds, appends '#[cfg(kani)] #[path=...] mod verif_kani_*;' lines to the copies and runs cargo kani there",
            "baseline_off_cmd": "cd /repo && cargo test --workspace --no-fail-fast --offline",
            "source_commits": [],
            "add_only": True,
        },
        "engines": [{"name": "kani-cbmc", "path": "/verif/lib/driver.py", "serves_properties": [c["property_id"] for c in checks],
                     "kind_free_text": "Kani 0.68.0 proof harnesses (harness/*.rs) compiled together with the current /repo source; CBMC 6.11.0 + CaDiCaL decide them; failures replayed natively via Kani concrete playback"}],
        "checks": checks,
        "not_applicable": na,
        "notes": "Fix commits in /repo are listed in known_findings.json ('fixed'). Exit 2 of a check = inconclusive (never success).",
    }
    with open(os.path.join(VERIF, "MANIFEST.json"), "w") as f:
        json.dump(man, f, indent=1)
    print("MANIFEST.json:", len(checks), "checks,", len(na), "not applicable")

if __name__ == "__main__":
    main()
