#!/usr/bin/env python3
"""Regenerates MANIFEST.json from the table below (kept in one place so it is always schema-valid)."""
import json, os, sys
VERIF = os.path.dirname(os.path.dirname(os.path.abspath(__file__)))
sys.path.insert(0, os.path.join(VERIF, "lib"))
import driver

TECH = "bounded symbolic execution of the real Rust source (Kani 0.68 proof harnesses -> CBMC 6.11 -> CaDiCaL SAT), counterexamples replayed natively"

# property -> (claim text, level note, design ref)
CLAIMS = {
 "C01": ("Deterministic clauses only: for every estimator state within the per-harness bounds CBMC decides lower_bound(s) <= estimate <= upper_bound(s) and nesting in s for HLL (HIP path for any accumulator value, coupon mode for any interpolation value, the real error tables / formula for every lg_k 4..=21: sign, nesting, out-of-order interval at least as wide as the in-order one, advertised RSE constants sqrt(ln 2 / k) and sqrt((3 ln 2 - 1) / k) on the analytic branch), CPC (HIP and ICON confidence bounds, error tables) and theta/compact theta (clamping holds for every value of the binomial approximation; exact mode equals the retained count), and that a sampling theta sketch that was offered data is not reported empty. Bias, empirical RSE, coverage rates and the values of the fitted tables are statistical and NOT claimed.",
         "Transcendental functions and the binomial approximations are over-approximated by arbitrary values (sound for the universally quantified ordering); float arithmetic is CBMC's IEEE-754 model; one concrete (lg_k, sigma) per float harness.", "DESIGN.md section 4 C01"),
 "C02": ("Quick tier: one update step of every HLL representation (list, 8-slot hash set, Array6, Array8, aux map incl. growth; Array4 with the exception slots concrete per instance - none, one, two colliding - and symbolic nibbles, cur_min and values; one cur_min shift with one exception) from an arbitrary representation-invariant-satisfying state at lg_k = 4, the mode life cycle list -> set / array for every lg_k, the three promotion functions in contract form (list -> set, set -> larger set, container -> Hll4/6/8 array hand every coupon of an arbitrary 8-slot source exactly once, unaltered, to the new representation's update(), which is a recorder there), coupon derivation and packing laws, estimator update, each compared with the per-slot-maximum / coupon-set model for all symbolic inputs within the bounds. Thorough tier adds the 16-slot set, every aux-table layout, shifts with 0 / 2 exceptions and the list -> array / set promotions over histories of 8 symbolic coupons (10-14 GB, > 10 min each; reported UNEXPLORED when they exceed the caps).",
         "Representation invariants written in the harnesses are assumed inductive (each step re-establishes them); register state at lg_k = 4 only, index arithmetic for all lg_k; HipEstimator::update replaced by a call recorder in register-model harnesses.", "DESIGN.md section 4 C02"),
 "C03": ("Quick tier: union kernels (same-lg_k merge, down-sampling merge, cached-value rebuild), the union of one array-mode input (Hll6 / Hll8) with all registers and the out-of-order flag symbolic, reset(), estimator update: compared with the register-wise-maximum model; the adopt-or-merge decision for a coupon-mode input for every pair of lg_k (the union's lg_k never changes) and the coupon replay of merge_coupons_into_gadget / merge_coupons_into_mode in contract form (every coupon of an arbitrary 8-slot list / set source handed exactly once to the receiver). Thorough tier adds two array-mode inputs in both orders, to_sketch for the three target types and a coupon-mode input into an empty union (these need 10-14 GB and more than 10 min each; reported UNEXPLORED when they exceed the caps).",
         "lg_k 2-4 (code is parametric), at most two inputs (longer sequences follow from the model being a commutative idempotent fold - argued, not solved); coupon-mode inputs are decided only in the thorough tier (on this machine: unexplored) - their coupon replay goes through the C02 harnesses; HipEstimator::update / rebuild_cached_values replaced by recorders in register harnesses.", "DESIGN.md section 4 C03"),
 "C04": ("ThetaHashTable steps (probe sequence, try_insert, resize, rebuild, trim, reset) from arbitrary valid tables at nominal size 2-4 with symbolic hashes and theta, the size arithmetic for every lg_k, hash_and_screen against the reference digest, and compact()/estimate on arbitrary small sketches.",
         "Table instantiated below the public minimum lg_k = 5 (code parametric in the sizes); std select_nth_unstable / sort_unstable replaced by reference insertion-sort models of their contracts.", "DESIGN.md section 4 C04"),
 "C05": ("Quick tier: flavor / window-offset / pseudo-phase arithmetic against wide-integer specifications for every lg_k 4..=26 and every coupon count; bit counting; PairTable insert / delete steps over every valid layout of 4/8 slots and get_items; row/column derivation from the hash; one CpcSketch update in each zone (early-zone inverted logic, window bit, late surprising value) from a windowed state at lg_k = 4 with a symbolic window, a concrete window offset (0, 3, 56) and at most one surprising value; the Sparse -> windowed promotion in two composed parts (update_sparse promotes exactly when determine_flavor of the new count leaves Sparse, for every lg_k 4..=26 and coupon count; promote_sparse_to_windowed re-encodes an arbitrary 4-slot table exactly at lg_k = 4) and the window move in two composed parts - update_windowed calls move_window exactly on the update after which floor((8C - 19K) / 8K) changes (lg_k = 4, offsets 0, 3, 55), and move_window re-encodes an ARBITRARY matrix exactly (lg_k = 2, the old offset symbolic over 0..=55 plus the concrete offsets 0, 7, 30, 55, <= 2 surprising values per row; thorough: <= 4 per row: new window bytes, the surprising values handed to the table and first_interesting_column = min(offset, lowest surprising column) denote the matrix that went in). Thorough tier adds the same step from an arbitrary windowed state with <= 2 surprising values in any table layout (one instance per window offset), a 3-step history from empty and the flavor round trips (each more than 20 min on this machine; reported UNEXPLORED when they exceed the caps).",
         "Sketch state at lg_k = 4 with <= 2 surprising values; the window-moving step is decided compositionally: move_window over the matrix returned by build_bit_matrix (replaced by an arbitrary matrix; build_bit_matrix itself is compared with the specification matrix in the step harnesses) with PairTable::maybe_insert as a recorder and refresh_kxp (floats) cut, at lg_k = 2; the end-to-end form (real table, lg_k = 4) stays thorough-tier and unexplored on this machine.", "DESIGN.md section 4 C05"),
 "C06": ("Quick tier: the three OR kernels of the CPC union with row folding (symbolic matrices, window, offset and table), the golden-ratio table walk stride for every table size, the first update of a fresh union with a Sparse sketch (same, larger and smaller lg_k: lg_k, coupon count, folded coupon), and Hybrid / Pinned / Sliding inputs into a bit-matrix union: the union's matrix is the OR of the matrix the input denotes. Thorough tier adds two Sparse inputs (reduce_k of a non-empty accumulator), Sparse / Sliding-offset-3 inputs into a matrix, to_sketch() from a bit matrix and histories through the public update path (13 GB and more; reported UNEXPLORED when they exceed the caps).",
         "lg_k 4-6; table layouts of the Sparse inputs concrete per instance (coupon's home slot fixed, all other bits symbolic); CpcSketch::update_hip cut (float HIP accumulators are not read by the union); more than two inputs follow from associativity of OR (argued).", "DESIGN.md section 4 C06"),
 "C07": ("Quick tier: ReversePurgeItemHashMap::adjust_or_put_value over every valid 8-slot layout with symbolic home slots against an abstract map; FrequentItemsSketch update_with_count in every state, the update-side amortisation and merge with a one-key argument over the abstract map (map operations replaced by their contracts), with ghost true counts for every key of the domain: bracket lb <= t <= lb + offset, exact total weight, 3*offset + sum(counters) <= N (error bound N/3 <= epsilon*N), capacity; capacity / epsilon arithmetic for every map size; round trip of the never-updated and the fully purged sketch. Thorough tier adds back-shift delete and purge on the real map (every layout), merge with a purged / three-key argument, the purge-side amortisation and frequent_items (6-14 min each).",
         "Real map size 8, u64 items, key domain 8, weights < 2^58 (8-bit in the amortisation harnesses); hash_item replaced by an arbitrary symbolic function of the key; std select_nth_unstable replaced by a reference model; sketch-level harnesses run over the abstract map (contracts proven by the map harnesses); merge trees follow from the additive invariant (argued).", "DESIGN.md section 4 C07"),
 "C08": ("One update / merge / halve / decay step of CountMinSketch for the 8 counter types from an arbitrary valid 2x3 table: table equals the model, one-sided guarantee for the updated item and a bystander via ghost true counts, estimate <= total; row seeds and entry arithmetic against reference derivations.",
         "2x3 table; hash inputs concrete (constant-folded real MurmurHash) while table, weights and ghost counts are symbolic; decay factors concrete; the confidence (fraction) clause is statistical and not claimed.", "DESIGN.md section 4 C08"),
 "C09": ("Bit-index arithmetic against a 128-bit specification for every hash pair, set/get bit, insert / contains_and_insert against the documented-position model with the reference XXH64, union / intersect / invert / reset with bits_used == popcount and membership preservation for every hash pair, serialization round trip.",
         "Filters of 1-3 words; items and seeds concrete in the insert model (hash constant-folded); FPP clause is statistical and not claimed.", "DESIGN.md section 4 C09"),
 "C10": ("rank / quantile range and monotonicity on concrete adversarial digests with symbolic queries (quick) and on symbolic 2-3 centroid digests (thorough), split-point handling incl. the empty list, cdf/pmf, total_weight/min/max of update.",
         "Digests of <= 3 centroids; symbolic-digest harnesses restrict values to integers |x| <= 2^20 and are thorough-tier only (float division circuits); boundary centroids of weight 1 assumed to sit at min/max; rank(quantile(q)) resolution is not claimed.", "DESIGN.md section 4 C10"),
 "C11": ("serialize() equals, byte for byte, the image produced by a spec encoder written in the harness from the format documentation, and the decoder applied to that image restores every field, for symbolic states of Bloom, Count-Min (8 types), Frequent Items (u64; never updated / fully purged / one item), HLL list and Hll4/Hll6/Hll8 arrays (unit level) plus the HLL dispatcher over every header, compact theta v3 (8 shapes) and v4 (tail path), t-digest (0-3 centroids, both merge directions); plus the bit-packing and CPC coding kernels (all 63 widths, 22 Huffman tables, unary code, pair stream).",
         "Small states with a concrete shape per harness (see bounds) and symbolic contents; images <= 64 bytes (CBMC's constant propagation over array cells); CPC flavor-level round trip is thorough-tier; String items not covered.", "DESIGN.md section 4 C11"),
 "C12": ("The byte-for-byte equality of serialize() with the spec encoder's image (preamble fields, flags, endianness, order, sizes transcribed from the Java/C++ format documentation) for Bloom, Count-Min, Frequent Items, HLL list/Hll4/Hll6/Hll8, compact theta v3, t-digest; v4 header fields and width; bit packing equals the MSB-first bit stream for all widths; codec widths and endianness.",
         "The oracle is my transcription of the published layouts (trusted); CPC compressed payload layout only via its kernels in the quick tier.", "DESIGN.md section 4 C12"),
 "C13": ("Images built by a spec encoder in the harness for variants this crate does not write (theta serial versions 1, 2 (empty/exact/estimating, zero-entry images), 3 single-item; t-digest f32 and reference-implementation big-endian encodings; Bloom dirty bit count; HLL COMPACT-flag arrays and updatable Hll4 aux tables) decode to the encoded state; the HLL dispatcher routes every header as documented.",
         "Small states, entry counts concrete per instance; non-compact list/set tables are covered by the parser harnesses of C14 only for no-panic, not for state equality.", "DESIGN.md section 4 C13"),
 "C14": ("Every byte string of one concrete length per instance (40-64 bytes; thorough tier: also cut at a list of shorter lengths) fed to the deserializers of Bloom, Count-Min (u8, i64), Frequent Items (u64 + its preamble checks), HLL (list, set, Hll4/6/8 at lg_k 4, the dispatcher over every header), compact theta (v1-v3, v4 with literal width/count, unknown versions) and t-digest (f64, f32, compat + the compat switch): no panic of any kind. The bytes that select a sub-parser or size a configuration-sized allocation are literals per instance, everything else is symbolic.",
         "Buffers <= 64 bytes with concrete length (a slice of symbolic length defeats constant propagation: no verdict in 10 min); Vec::with_capacity replaced by Vec::new and ignored read errors forgotten instead of dropped (DESIGN 2.3); allocation clause only for count fields - configuration-sized allocations of empty images are outside the claim; CPC deserialize is checked through its decoding kernels.", "DESIGN.md section 4 C14"),
 "C15": ("Structural part only: capacity arithmetic for every k and the shared C10 harnesses; the centroid-count bound and rank accuracy depend on ln() over unbounded streams and are not claimed.",
         "see C10.", "DESIGN.md section 4 C15"),
 "C16": ("MurmurHash3 write() and XXH64 write() as inductive steps over arbitrary hasher states and chunk contents for boundary (buffered, chunk) length pairs, finish128/finish64 for every tail length, one-shot equality with independently written references, seed hash, coupon / theta hash / Count-Min seeds / Bloom positions derivations.",
         "64-bit multiplication abstracted as an uninterpreted function (sound for the equalities proved); chunk lengths <= 33 / 65 bytes; std Hash impls are std's contract.", "DESIGN.md section 4 C16"),
 "C17": ("Kani's automatic checks (overflow, bounds, debug_assert, assert, unreachable, unwrap/expect, division by zero, shift) are part of every harness of C02-C10; dedicated arithmetic harnesses cover the documented extremes (pseudo-phase, flavor, offsets, Golomb parameters, buffer lengths, Array6 window, capacities) for their whole admissible ranges.",
         "Dev-profile semantics (overflow checks and debug assertions on); release profile by native replay of counterexamples only.", "DESIGN.md section 4 C17"),
 "C18": ("Image length equals the layout's size formula (inside the byte-for-byte comparisons of C11) for HLL list/Hll4/Hll6/Hll8, Bloom, Count-Min, t-digest, theta; list <= 8 coupons, a set only exists with lg_size <= lg_k - 3 for every lg_k (mode life cycle) and is promoted at 3/4 load of 2^(lg_k-3) slots, theta entries <= 15/16 * 2k after every insert and k after trim, Frequent Items num_active <= capacity after every update.",
         "Step invariants at the small sizes of C02/C04/C07; CPC 0.1% size clause is statistical and not claimed.", "DESIGN.md section 4 C18"),
}
NOT_APPLICABLE = {
}

def main():
    hs = driver.load_registry()
    props = sorted({p for h in hs for p in h.props})
    checks = []
    for p in sorted(CLAIMS):
        if p not in props:
            continue
        text, note, ref = CLAIMS[p]
        checks.append({
            "property_id": p,
            "quick_cmd": "./check %s --tier quick" % p,
            "thorough_cmd": "./check %s --tier thorough" % p,
            "evidence_file": "/verif/evidence/%s.json" % p,
            "replay_cmd_template": "./check %s --replay {path}" % p,
            "engine": "kani-cbmc",
            "level_claimed": {"category": "model_checking", "text": text, "design_ref": ref},
            "level_note": note,
            "technique": TECH,
        })
    all_ids = [json.loads(l)["id"] for l in open(os.path.join(VERIF, "properties.jsonl"))]
    na = []
    for p in all_ids:
        if p in [c["property_id"] for c in checks]:
            continue
        na.append({"property_id": p, "reason": NOT_APPLICABLE.get(p, "no check registered yet in this round (harnesses under construction); nothing is claimed")})
    man = {
        "version": 1,
        "setup_cmd": "true",
        "hooks": {
            "guard": "cfg(kani) in a scratch overlay copy of /repo/datasketches/src (no hook is committed to /repo)",
            "enable": "each check copies /repo/datasketches/src to /var/tmp/dsverif.*/ds, appends '#[cfg(kani)] #[path=...] mod verif_kani_*;' lines to the copies, rewrites closures that ignore a failed read's error to forget it under cfg(kani) (DESIGN 2.3), and runs cargo kani there",
            "baseline_off_cmd": "cd /repo && cargo test --workspace --no-fail-fast --offline",
            "source_commits": [],
            "add_only": True,
        },
        "engines": [{"name": "kani-cbmc", "path": "/verif/lib/driver.py", "serves_properties": [c["property_id"] for c in checks],
                     "kind_free_text": "Kani 0.68.0 proof harnesses (harness/*.rs) compiled together with the current /repo source; CBMC 6.11.0 + CaDiCaL decide them; failures replayed natively via Kani concrete playback"}],
        "checks": checks,
        "not_applicable": na,
        "notes": "Fix commits in /repo are listed in known_findings.json ('fixed'). Exit 2 of a check = inconclusive (never success).",
    }
    with open(os.path.join(VERIF, "MANIFEST.json"), "w") as f:
        json.dump(man, f, indent=1)
    print("MANIFEST.json:", len(checks), "checks,", len(na), "not applicable")

if __name__ == "__main__":
    main()
