//@@ attach: bloom/sketch.rs
// Bloom filter: position arithmetic, bits_used == popcount invariant, set operations, serialization.
use super::*;
use crate::verif_kani_common::refhash;
use crate::verif_kani_common::stub_format;

fn popcount(words: &[u64]) -> u64 {
    // bit-by-bit on purpose (independent of count_ones)
    let mut n = 0u64;
    let mut i = 0;
    while i < words.len() {
        let mut w = words[i];
        w = w - ((w >> 1) & 0x5555555555555555);
        w = (w & 0x3333333333333333) + ((w >> 2) & 0x3333333333333333);
        w = (w + (w >> 4)) & 0x0f0f0f0f0f0f0f0f;
        w = w + (w >> 8);
        w = w + (w >> 16);
        w = w + (w >> 32);
        n += w & 0x7f;
        i += 1;
    }
    n
}

fn mk(words: &[u64], num_hashes: u16, seed: u64) -> BloomFilter {
    BloomFilter {
        seed,
        num_hashes,
        num_bits_set: popcount(words),
        bit_array: words.to_vec().into_boxed_slice(),
    }
}

/// documented position i (1-based) for the hash pair: ((h0 + i*h1) >> 1) mod capacity, in 128-bit arithmetic
fn spec_pos(h0: u64, h1: u64, i: u16, cap: usize) -> usize {
    let s = ((h0 as u128) + (i as u128) * (h1 as u128)) & 0xffff_ffff_ffff_ffff;
    ((s >> 1) % (cap as u128)) as usize
}

macro_rules! bit_index_spec {
    ($name:ident, $words:expr) => {
        #[kani::proof]
        #[kani::unwind(5)]
        fn $name() {
            let f = mk(&[0u64; $words], 4, 0);
            let h0: u64 = kani::any();
            let h1: u64 = kani::any();
            let mut i: u16 = 1;
            while i <= 3 {
                let got = f.compute_bit_index(h0, h1, i);
                assert!(got < f.capacity(), "bit index out of range");
                assert!(got == spec_pos(h0, h1, i, 64 * $words), "bit index differs from ((h0+i*h1)>>1) mod capacity");
                i += 1;
            }
            kani::cover!(f.compute_bit_index(h0, h1, 2) == 64 * $words - 1);
            core::mem::forget(f);
        }
    };
}

//@ family: bit_index_spec
//@ props: C09 C17
//@ tier: thorough
//@ timeout: 300
//@ functions: bloom::BloomFilter::compute_bit_index
//@ functions: bloom::BloomFilter::capacity
//@ unwind: 5
//@ bounds: every hash pair (h0, h1: u64), probe numbers i = 1..=3, capacity fixed per instance (64, 128, 192 bits = power of two and non power of two)
//@ desc: compute_bit_index == ((h0 + i*h1) mod 2^64 >> 1) mod capacity (128-bit specification) and < capacity
bit_index_spec!(c09_bit_index_64, 1);
bit_index_spec!(c09_bit_index_128, 2);
bit_index_spec!(c09_bit_index_192, 3); //@ tier: quick
//@ endfamily: x

//@ props: C09 C17
//@ tier: quick
//@ timeout: 300
//@ functions: bloom::BloomFilter::set_bit
//@ functions: bloom::BloomFilter::get_bit
//@ bounds: 3-word (192-bit) array with every content, every bit index < 192
//@ desc: set_bit sets exactly the addressed bit, get_bit reads it, bits_used is incremented iff the bit was clear (so bits_used == popcount is preserved)
#[kani::proof]
#[kani::unwind(5)]
fn c09_set_get_bit() {
    let words: [u64; 3] = kani::any();
    let mut f = mk(&words, 1, 0);
    let idx: usize = kani::any();
    kani::assume(idx < 192);
    let other: usize = kani::any();
    kani::assume(other < 192 && other != idx);
    let was = (words[idx / 64] >> (idx % 64)) & 1 == 1;
    let other_was = f.get_bit(other);
    assert!(f.get_bit(idx) == was);
    let before = f.num_bits_set;
    f.set_bit(idx);
    assert!(f.get_bit(idx));
    assert!(f.get_bit(other) == other_was, "set_bit disturbed another bit");
    assert!(f.num_bits_set == before + if was { 0 } else { 1 });
    assert!(f.num_bits_set == popcount(&f.bit_array), "bits_used != popcount after set_bit");
    let mut w = 0;
    while w < 3 {
        let want = if w == idx / 64 { words[w] | (1u64 << (idx % 64)) } else { words[w] };
        assert!(f.bit_array[w] == want);
        w += 1;
    }
    kani::cover!(was && idx == 191);
    kani::cover!(!was && idx == 64);
    core::mem::forget(f);
}

fn spec_hashes(item: u64, seed: u64) -> (u64, u64) {
    let b = item.to_le_bytes();
    let h0 = refhash::xxh64(&b, 8, seed);
    let h1 = refhash::xxh64(&b, 8, h0);
    (h0, h1)
}

macro_rules! insert_model {
    ($name:ident, $words:expr, $k:expr, $item:expr, $seed:expr) => {
        #[kani::proof]
        #[kani::unwind(10)]
        fn $name() {
            let words: [u64; $words] = kani::any();
            let mut f = mk(&words, $k, $seed);
            let item: u64 = $item;
            let (h0, h1) = spec_hashes(item, $seed);
            assert!(f.compute_hash(&item) == (h0, h1), "compute_hash differs from XXH64(item, seed), XXH64(item, h0)");
            // model: OR of the documented positions
            let mut model = words;
            let mut all_set_before = true;
            let mut i: u16 = 1;
            while i <= $k {
                let p = spec_pos(h0, h1, i, 64 * $words);
                if (model[p / 64] >> (p % 64)) & 1 == 0 {
                    all_set_before = false;
                }
                i += 1;
            }
            let mut i: u16 = 1;
            while i <= $k {
                let p = spec_pos(h0, h1, i, 64 * $words);
                model[p / 64] |= 1u64 << (p % 64);
                i += 1;
            }
            let was = f.contains(&item);
            assert!(was == all_set_before, "contains() differs from the model");
            let mut g = f.clone();
            f.insert(item);
            let reported = g.contains_and_insert(&item);
            assert!(reported == all_set_before, "contains_and_insert reports the wrong prior state");
            let mut w = 0;
            while w < $words {
                assert!(f.bit_array[w] == model[w], "bit array differs from the model after insert");
                assert!(g.bit_array[w] == model[w], "bit array differs from the model after contains_and_insert");
                w += 1;
            }
            assert!(f.contains(&item), "false negative right after insert");
            assert!(f.bits_used() == popcount(&model), "bits_used != popcount after insert");
            assert!(g.bits_used() == popcount(&model));
            kani::cover!(!all_set_before);
            kani::cover!(all_set_before);
            core::mem::forget(f);
            core::mem::forget(g);
        }
    };
}

//@ family: insert_model
//@ props: C09 C16 C17
//@ tier: thorough
//@ timeout: 400
//@ functions: bloom::BloomFilter::insert
//@ functions: bloom::BloomFilter::contains
//@ functions: bloom::BloomFilter::contains_and_insert
//@ functions: bloom::BloomFilter::compute_hash
//@ functions: bloom::BloomFilter::set_bits
//@ functions: bloom::BloomFilter::check_bits
//@ unwind: 10
//@ bounds: bit array of 1-3 words with every content (bits_used = popcount); num_hashes, item and seed concrete per instance (hash constant-folded; reference = /verif's XXH64 transcription)
//@ desc: insert / contains_and_insert set exactly the documented positions ((h0+i*h1)>>1) mod capacity, i=1..=num_hashes, h0=XXH64(item,seed), h1=XXH64(item,h0); contains == all positions set; no false negative; bits_used == popcount
insert_model!(c09_insert_model_w2_k3, 2, 3, 42, 9001); //@ tier: quick
insert_model!(c09_insert_model_w3_k4, 3, 4, 0xdead_beef_0000_0001, 0); //@ tier: quick
insert_model!(c09_insert_model_w1_k1, 1, 1, 7, u64::MAX);
insert_model!(c09_insert_model_w3_k2, 3, 2, 123456789, 9001);
//@ endfamily: x

//@ props: C09 C17
//@ tier: quick
//@ timeout: 600
//@ functions: bloom::BloomFilter::union
//@ functions: bloom::BloomFilter::intersect
//@ functions: bloom::BloomFilter::invert
//@ functions: bloom::BloomFilter::reset
//@ functions: bloom::BloomFilter::is_compatible
//@ functions: bloom::BloomFilter::check_bits
//@ bounds: two 2-word (128-bit) filters with every content, num_hashes = 2; membership checked for EVERY hash pair (h0, h1) through check_bits
//@ desc: union = word-wise OR, intersect = AND, invert = NOT, reset = zero, each with bits_used == popcount; any hash pair contained in either operand is contained in the union, any pair contained in both survives intersect
#[kani::proof]
#[kani::unwind(4)]
fn c09_setops_model() {
    let a: [u64; 2] = kani::any();
    let b: [u64; 2] = kani::any();
    let fa = mk(&a, 2, 5);
    let fb = mk(&b, 2, 5);
    assert!(fa.is_compatible(&fb));
    let h0: u64 = kani::any();
    let h1: u64 = kani::any();
    let in_a = fa.check_bits(h0, h1);
    let in_b = fb.check_bits(h0, h1);

    let mut u = fa.clone();
    u.union(&fb);
    assert!(u.bit_array[0] == a[0] | b[0] && u.bit_array[1] == a[1] | b[1], "union is not OR");
    assert!(u.bits_used() == popcount(&u.bit_array), "bits_used != popcount after union");
    if in_a || in_b {
        assert!(u.check_bits(h0, h1), "false negative after union");
    }

    let mut n = fa.clone();
    n.intersect(&fb);
    assert!(n.bit_array[0] == a[0] & b[0] && n.bit_array[1] == a[1] & b[1], "intersect is not AND");
    assert!(n.bits_used() == popcount(&n.bit_array), "bits_used != popcount after intersect");
    if in_a && in_b {
        assert!(n.check_bits(h0, h1), "item of both operands lost by intersect");
    }

    let mut v = fa.clone();
    v.invert();
    assert!(v.bit_array[0] == !a[0] && v.bit_array[1] == !a[1]);
    assert!(v.bits_used() == popcount(&v.bit_array), "bits_used != popcount after invert");

    let mut r = fa.clone();
    r.reset();
    assert!(r.bit_array[0] == 0 && r.bit_array[1] == 0 && r.bits_used() == 0 && r.is_empty());

    kani::cover!(in_a && !in_b);
    kani::cover!(in_a && in_b);
    core::mem::forget((fa, fb, u, n, v, r));
}

//@ props: C09 C17
//@ tier: quick
//@ timeout: 120
//@ functions: bloom::BloomFilter::is_compatible
//@ bounds: word counts 1..=2, every num_hashes and seed
//@ desc: is_compatible holds exactly when length, num_hashes and seed agree
#[kani::proof]
#[kani::unwind(4)]
fn c09_is_compatible() {
    let la: usize = kani::any();
    let lb: usize = kani::any();
    kani::assume(la >= 1 && la <= 2 && lb >= 1 && lb <= 2);
    let z = [0u64; 2];
    let fa = mk(&z[..la], kani::any(), kani::any());
    let fb = mk(&z[..lb], kani::any(), kani::any());
    let want = la == lb && fa.num_hashes == fb.num_hashes && fa.seed == fb.seed;
    assert!(fa.is_compatible(&fb) == want);
    kani::cover!(want);
    kani::cover!(!want && la == lb);
    core::mem::forget((fa, fb));
}

// ---------------------------------------------------------------------------------------------
// serialization: C11 round trip, C12 layout, C13 dirty-bits variant, C14 arbitrary bytes, C18 size
// ---------------------------------------------------------------------------------------------

fn rd_u16(b: &[u8], o: usize) -> u16 {
    (b[o] as u16) | ((b[o + 1] as u16) << 8)
}
fn rd_u32(b: &[u8], o: usize) -> u32 {
    (rd_u16(b, o) as u32) | ((rd_u16(b, o + 2) as u32) << 16)
}
fn rd_u64(b: &[u8], o: usize) -> u64 {
    (rd_u32(b, o) as u64) | ((rd_u32(b, o + 4) as u64) << 32)
}

/// loop-free little-endian store
fn put_le(b: &mut [u8], o: usize, v: u64, n: usize) {
    b[o] = v as u8;
    if n >= 2 {
        b[o + 1] = (v >> 8) as u8;
    }
    if n >= 4 {
        b[o + 2] = (v >> 16) as u8;
        b[o + 3] = (v >> 24) as u8;
    }
    if n >= 8 {
        b[o + 4] = (v >> 32) as u8;
        b[o + 5] = (v >> 40) as u8;
        b[o + 6] = (v >> 48) as u8;
        b[o + 7] = (v >> 56) as u8;
    }
}

/// Round trip against a SPEC ENCODER (Bloom filter layout of datasketches-java/cpp) in an exact-size array
/// (<= 64 bytes, structural fields literal): serialize() must equal it byte for byte (C12, C18), and the
/// decoder is run on the spec image (C11).
fn roundtrip_case<const N: usize, const LEN: usize>(empty: bool) {
    let words: [u64; N] = if empty { [0u64; N] } else { kani::any() };
    let k: u16 = kani::any();
    kani::assume(k >= 1 && k <= 32767);
    let seed: u64 = kani::any();
    let f = mk(&words, k, seed);
    let pc = popcount(&words);
    kani::assume(empty == (pc == 0));
    let mut img = [0u8; LEN];
    assert!(LEN == if empty { 24 } else { 32 + 8 * N });
    img[0] = if empty { 3 } else { 4 }; // preamble longs
    img[1] = 1; // serial version
    img[2] = 21; // family id
    img[3] = if empty { 4 } else { 0 }; // flags: empty bit 2
    put_le(&mut img, 4, k as u64, 2); // num_hashes (+ 2 unused bytes)
    put_le(&mut img, 8, seed, 8);
    put_le(&mut img, 16, N as u64, 4); // num_longs (+ 4 unused bytes)
    if !empty {
        put_le(&mut img, 24, pc, 8); // num_bits_set
        let mut i = 0;
        while i < N {
            put_le(&mut img, 32 + 8 * i, words[i], 8);
            i += 1;
        }
    }
    let bytes = f.serialize();
    assert!(bytes.len() == LEN, "image length is not the layout's size");
    macro_rules! same_word {
        ($($i:expr),*) => { $( if 8 * $i < LEN {
            assert!(rd_u64(&bytes, 8 * $i) == rd_u64(&img, 8 * $i), "serialized bytes differ from the documented layout");
        } )* };
    }
    same_word!(0, 1, 2, 3, 4, 5, 6, 7);
    // ---- round trip (C11)
    let r = BloomFilter::deserialize(&img);
    let g = crate::verif_kani_common::expect_ok(r, "own image rejected");
    assert!(g.seed == seed && g.num_hashes == k && g.num_bits_set == f.num_bits_set);
    assert!(g.bit_array.len() == N);
    let mut i = 0;
    while i < N {
        assert!(g.bit_array[i] == words[i], "bit array changed in round trip");
        i += 1;
    }
    kani::cover!(true);
    core::mem::forget((f, g, bytes));
}

macro_rules! bloom_roundtrip {
    ($name:ident, $n:expr, $len:expr, $empty:expr) => {
        #[kani::proof]
        #[kani::unwind(6)]
        #[kani::stub(alloc::fmt::format, stub_format)]
        fn $name() {
            roundtrip_case::<$n, $len>($empty);
        }
    };
}

//@ family: bloom_roundtrip
//@ props: C11 C12 C18 C09
//@ tier: thorough
//@ timeout: 900
//@ functions: bloom::BloomFilter::serialize
//@ functions: bloom::BloomFilter::deserialize
//@ unwind: 6
//@ stubs: alloc::fmt::format -> empty string
//@ bounds: filters of 1, 2 and 4 words: the empty filter and every non-empty content (bits_used = popcount), every num_hashes in 1..=32767 and seed
//@ desc: serialize() equals, byte for byte, the image a spec encoder written from the Java/C++ Bloom layout produces (preLongs 3/4, serVer 1, family 21, empty flag bit 2, numHashes u16 @4, seed u64 @8, numLongs i32 @16, numBitsSet u64 @24, words @32, all little endian; 24 bytes when empty, else 32 + 8 * words); deserializing it restores the filter field by field
bloom_roundtrip!(c11_bloom_roundtrip_empty_2, 2, 24, true); //@ tier: quick
bloom_roundtrip!(c11_bloom_roundtrip_1, 1, 40, false); //@ tier: quick
bloom_roundtrip!(c11_bloom_roundtrip_2, 2, 48, false); //@ tier: quick
bloom_roundtrip!(c11_bloom_roundtrip_4, 4, 64, false);
//@ endfamily: x

fn foreign_case<const NW: usize>() {
    let n: usize = NW;
    let words: [u64; 2] = kani::any();
    let k: u16 = kani::any();
    kani::assume(k >= 1 && k <= 32767);
    let seed: u64 = kani::any();
    let dirty: bool = kani::any();
    let pc = popcount(&words[..n]);
    kani::assume(pc > 0);
    let mut img = [0u8; 48];
    img[0] = 4;
    img[1] = 1;
    img[2] = 21;
    img[3] = 0;
    img[4] = k as u8;
    img[5] = (k >> 8) as u8;
    img[6] = kani::any();
    img[7] = kani::any();
    let mut i = 0;
    while i < 8 {
        img[8 + i] = (seed >> (8 * i)) as u8;
        i += 1;
    }
    img[16] = n as u8;
    let cnt = if dirty { u64::MAX } else { pc };
    let mut i = 0;
    while i < 8 {
        img[24 + i] = (cnt >> (8 * i)) as u8;
        img[32 + i] = (words[0] >> (8 * i)) as u8;
        img[40 + i] = (words[1] >> (8 * i)) as u8;
        i += 1;
    }
    let r = BloomFilter::deserialize(&img[..32 + 8 * n]);
    let g = crate::verif_kani_common::expect_ok(r, "valid foreign image rejected");
    assert!(g.seed == seed && g.num_hashes == k);
    assert!(g.bit_array.len() == n);
    assert!(g.bit_array[0] == words[0]);
    if n == 2 {
        assert!(g.bit_array[1] == words[1]);
    }
    assert!(g.bits_used() == pc, "bits_used != popcount after reading a foreign image");
    assert!(!g.is_empty());
    kani::cover!(dirty);
    kani::cover!(!dirty);
    core::mem::forget(g);
}

//@ props: C13
//@ tier: quick
//@ timeout: 600
//@ functions: bloom::BloomFilter::deserialize
//@ bounds: spec-encoded images of 1..=2 word filters, every content, bit-count field either the true count or the Java "dirty" marker 0xFFFFFFFFFFFFFFFF; unused header fields arbitrary
//@ desc: an image built by the harness's own encoder from an abstract filter (including the dirty-bit-count variant Java emits) deserializes to exactly that filter with bits_used == popcount
#[kani::proof]
#[kani::unwind(12)]
#[kani::stub(alloc::fmt::format, stub_format)]
fn c13_bloom_foreign_image() {
    foreign_case::<1>();
    foreign_case::<2>();
}

//@ props: C14
//@ tier: thorough
//@ timeout: 3600
//@ functions: bloom::BloomFilter::deserialize
//@ functions: bloom::BloomFilter::contains
//@ functions: bloom::BloomFilter::insert
//@ functions: bloom::BloomFilter::invert
//@ functions: bloom::BloomFilter::serialize
//@ functions: bloom::BloomFilter::union
//@ bounds: every byte string of length 0..=48 (all 48 bytes symbolic, length symbolic)
//@ desc: deserialize returns Ok or Err without panic / overflow / out-of-bounds for every byte string; an Ok value has >= 1 hash function and >= 1 word
#[kani::proof]
#[kani::unwind(8)]
#[kani::stub(alloc::fmt::format, stub_format)]
#[kani::stub(alloc::vec::Vec::with_capacity, crate::verif_kani_common::stub_with_capacity)]
fn c14_bloom_deserialize_any_bytes() {
    bloom_any_bytes_case(false, false);
}

//@ props: C14
//@ tier: quick
//@ timeout: 900
//@ functions: bloom::BloomFilter::deserialize
//@ bounds: every byte string of length 0..=48 whose num_longs field (@16) is the literal 2 (the bit-array allocation is then concrete); every other byte (preamble, version, family, flags, num_hashes, seed, bit count, words) and the length symbolic
//@ desc: deserialize returns Ok or Err without panic for every such byte string; an accepted image has bits_used == popcount of its words (a wrong stored count is recounted or rejected)
#[kani::proof]
#[kani::unwind(8)]
#[kani::stub(alloc::fmt::format, stub_format)]
#[kani::stub(alloc::vec::Vec::with_capacity, crate::verif_kani_common::stub_with_capacity)]
fn c14_bloom_deserialize_any_bytes_two_words() {
    bloom_any_bytes_case(false, true);
}

//@ props: C14
//@ tier: thorough
//@ timeout: 3600
//@ functions: bloom::BloomFilter::deserialize
//@ functions: bloom::BloomFilter::contains
//@ functions: bloom::BloomFilter::insert
//@ functions: bloom::BloomFilter::invert
//@ functions: bloom::BloomFilter::serialize
//@ functions: bloom::BloomFilter::union
//@ bounds: as c14_bloom_deserialize_any_bytes, plus follow-up operations on an Ok value when it holds <= 2 words
//@ desc: an accepted image can be queried, updated, inverted, merged with an identically shaped peer and re-serialized without panicking
#[kani::proof]
#[kani::unwind(8)]
#[kani::stub(alloc::fmt::format, stub_format)]
#[kani::stub(alloc::vec::Vec::with_capacity, crate::verif_kani_common::stub_with_capacity)]
fn c14_bloom_deserialize_any_bytes_then_use() {
    bloom_any_bytes_case(true, false);
}

fn bloom_any_bytes_case(follow_up: bool, two_words: bool) {
    let mut img: [u8; 48] = kani::any();
    // (the two-word instance reads the full 48 bytes: a slice of symbolic length defeats constant propagation
    // over the literal num_longs field; truncated images are the *_any_bytes instance, thorough tier)
    let len: usize = if two_words { 48 } else { kani::any() };
    kani::assume(len <= 48);
    if two_words {
        img[16] = 2;
        img[17] = 0;
        img[18] = 0;
        img[19] = 0;
    }
    let r = BloomFilter::deserialize(&img[..len]);
    kani::cover!(r.is_ok());
    kani::cover!(r.is_err());
    if let Ok(mut g) = r {
        assert!(g.num_hashes >= 1);
        assert!(g.bit_array.len() >= 1);
        kani::cover!(g.bit_array.len() == 2);
        if two_words {
            assert!(g.bit_array.len() == 2);
            assert!(g.bits_used() == (g.bit_array[0].count_ones() + g.bit_array[1].count_ones()) as u64, "accepted image whose bit count is not the population count");
        }
        if follow_up && g.bit_array.len() <= 2 && g.num_hashes <= 2 {
            let _ = g.bits_used();
            let _ = g.capacity();
            let peer = g.clone();
            let h0: u64 = kani::any();
            let h1: u64 = kani::any();
            let _ = g.check_bits(h0, h1);
            g.set_bits(h0, h1);
            g.union(&peer);
            g.intersect(&peer);
            g.invert();
            let out = g.serialize();
            core::mem::forget(out);
            core::mem::forget(peer);
        }
        core::mem::forget(g);
    } else {
        core::mem::forget(r);
    }
}
