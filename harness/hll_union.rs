//@@ attach: hll/union.rs
//@@ needs: hll_estimator.rs hll_array8.rs hll_array6.rs
// HllUnion: register-wise maximum folded to the smallest lg_k, order independence, out-of-order
// handling, to_sketch independence of the target type.
use super::*;
use crate::hll::array6::verif_kani_hll_array6 as v6;
use crate::hll::array8::verif_kani_hll_array8 as v8;
use crate::hll::estimator::verif_kani_hll_estimator as ve;
use crate::hll::estimator::verif_kani_hll_estimator::rec_update;

fn regs_of(s: &HllSketch, out: &mut [u8]) {
    let n = out.len();
    let mut i = 0;
    while i < n {
        out[i] = match s.mode() {
            Mode::Array4(a) => a.get(i as u32),
            Mode::Array6(a) => a.get(i as u32),
            Mode::Array8(a) => a.get(i as u32),
            _ => panic!("not an array"),
        };
        i += 1;
    }
}

const LG: u8 = 2; // register files of 4 registers (the code is parametric in lg_k; 8 registers exhaust 14 GB)
const NR: usize = 4;

fn any_regs8() -> [u8; 8] {
    let r: [u8; 8] = kani::any();
    let mut i = 0;
    while i < 8 {
        kani::assume(r[i] <= 63);
        i += 1;
    }
    r
}

fn any_regs() -> [u8; NR] {
    let r: [u8; NR] = kani::any();
    let mut i = 0;
    while i < NR {
        kani::assume(r[i] <= 63);
        i += 1;
    }
    r
}

fn est(ooo: bool) -> crate::hll::estimator::HipEstimator {
    let mut e = ve::raw_estimator(if ooo { 0.0 } else { 11.0 }, 8.0, 0.0, false);
    e.set_out_of_order(ooo);
    e
}

fn sketch6(regs: &[u8], lg: u8, ooo: bool) -> HllSketch {
    HllSketch::from_mode(lg, Mode::Array6(v6::array6_from_regs(lg, regs, est(ooo))))
}

fn sketch8(regs: &[u8], lg: u8, ooo: bool) -> HllSketch {
    HllSketch::from_mode(lg, Mode::Array8(v8::raw_array8(lg, regs, est(ooo))))
}

fn new_union() -> HllUnion {
    HllUnion { lg_max_k: 4, gadget: HllSketch::new(4, HllType::Hll8) }
}

fn single_input_case(hll6: bool) {
    let r = any_regs();
    let ooo: bool = kani::any();
    let a = if hll6 { sketch6(&r, LG, ooo) } else { sketch8(&r, LG, ooo) };
    kani::assume(!a.is_empty());
    let mut u = new_union();
    u.update(&a);
    let mut g = [0u8; NR];
    regs_of(&u.gadget, &mut g);
    let mut i = 0;
    while i < NR {
        assert!(g[i] == r[i], "union of one sketch does not hold that sketch's registers");
        i += 1;
    }
    assert!(u.lg_config_k() == LG, "union did not shrink to the input's lg_k");
    assert!(!u.is_empty());
    if let Mode::Array8(arr) = u.gadget.mode() {
        if !arr.is_out_of_order() {
            assert!(!ooo, "out-of-order input produced an in-order gadget (its HIP accumulator is 0: estimate 0)");
            assert!(arr.hip_accum() == 11.0, "in-order gadget did not take over the input's HIP accumulator");
        }
    } else {
        panic!("gadget must be an Hll8 array");
    }
    // idempotence
    u.update(&a);
    let mut g2 = [0u8; NR];
    regs_of(&u.gadget, &mut g2);
    let mut i = 0;
    while i < NR {
        assert!(g2[i] == r[i], "repeating an input changed the union");
        i += 1;
    }
    kani::cover!(ooo);
    kani::cover!(!ooo);
    core::mem::forget((a, u));
}

macro_rules! union_single {
    ($name:ident, $hll6:expr) => {
        #[kani::proof]
        #[kani::unwind(8)]
        #[kani::stub(crate::hll::estimator::HipEstimator::update, rec_update)]
        #[kani::stub(crate::hll::array8::Array8::rebuild_cached_values, v8::stub_rebuild_cached_values)]
        fn $name() {
            single_input_case($hll6);
        }
    };
}

//@ family: union_single
//@ props: C03 C17
//@ tier: quick
//@ timeout: 1800
//@ functions: hll::union::HllUnion::update
//@ functions: hll::union::HllUnion::update_from_array
//@ functions: hll::union::copy_or_downsample
//@ functions: hll::union::copy_array46_via_coupons
//@ functions: hll::union::merge_array_into_array8
//@ functions: hll::union::merge_array_same_lgk
//@ functions: hll::union::merge_array46_same_lgk
//@ unwind: 8
//@ stubs: HipEstimator::update -> recorder, Array8::rebuild_cached_values -> integer-only stand-in (the float sums are c03_array8_rebuild_cached_values / c02_estimator_update_tracks_registers)
//@ bounds: union (lg_max_k 4) fed one array-mode sketch of 4 registers (lg_k 2; the public minimum 4 only changes the sizes) with all registers 0..=63 and the out-of-order flag symbolic; Hll6 resp. Hll8 input per instance; the same input fed twice
//@ replay_stub: hll/estimator.rs | pub fn update(&mut self, lg_config_k: u8, old_value: u8, new_value: u8) { | return self::verif_kani_hll_estimator::rec_update(self, lg_config_k, old_value, new_value);
//@ desc: the gadget holds exactly the input's registers at the input's lg_k; a gadget built from an out-of-order input is itself out-of-order (never an in-order gadget with HIP accumulator 0, i.e. estimate 0 for a non-empty input); an in-order gadget carries the input's HIP accumulator; feeding the input again changes nothing
union_single!(c03_union_single_hll6, true);
union_single!(c03_union_single_hll8, false);
//@ endfamily: x

//@ props: C03 C17
//@ tier: thorough
//@ timeout: 1800
//@ functions: hll::union::HllUnion::update
//@ functions: hll::union::merge_array_same_lgk
//@ functions: hll::union::merge_array46_same_lgk
//@ functions: hll::array8::Array8::merge_array_same_lgk
//@ stubs: HipEstimator::update -> recorder, Array8::rebuild_cached_values -> integer-only stand-in
//@ bounds: two array-mode inputs of 4 registers (an Hll6 and an Hll8 sketch) with all registers and both out-of-order flags symbolic, fed in both orders
//@ replay_stub: hll/estimator.rs | pub fn update(&mut self, lg_config_k: u8, old_value: u8, new_value: u8) { | return self::verif_kani_hll_estimator::rec_update(self, lg_config_k, old_value, new_value);
//@ desc: the union of two sketches is the register-wise maximum, independent of the input order, and is marked out-of-order (a merge has no valid HIP accumulator)
#[kani::proof]
#[kani::unwind(8)]
#[kani::stub(crate::hll::estimator::HipEstimator::update, rec_update)]
#[kani::stub(crate::hll::array8::Array8::rebuild_cached_values, v8::stub_rebuild_cached_values)]
fn c03_union_pair_order_independent() {
    let ra = any_regs();
    let rb = any_regs();
    let a = sketch6(&ra, LG, kani::any());
    let b = sketch8(&rb, LG, kani::any());
    kani::assume(!a.is_empty() && !b.is_empty());
    let mut u1 = new_union();
    u1.update(&a);
    u1.update(&b);
    let mut u2 = new_union();
    u2.update(&b);
    u2.update(&a);
    let mut g1 = [0u8; NR];
    let mut g2 = [0u8; NR];
    regs_of(&u1.gadget, &mut g1);
    regs_of(&u2.gadget, &mut g2);
    let mut i = 0;
    while i < NR {
        let m = if ra[i] > rb[i] { ra[i] } else { rb[i] };
        assert!(g1[i] == m, "union is not the register-wise maximum");
        assert!(g2[i] == m, "union depends on the input order");
        i += 1;
    }
    if let (Mode::Array8(x), Mode::Array8(y)) = (u1.gadget.mode(), u2.gadget.mode()) {
        assert!(x.is_out_of_order() && y.is_out_of_order(), "merged gadget not marked out-of-order");
        assert!(x.hip_accum() == y.hip_accum(), "HIP state depends on the input order");
    } else {
        panic!("gadget must be an Hll8 array");
    }
    assert!(u1.lg_config_k() == LG && u2.lg_config_k() == LG);
    kani::cover!(true);
    core::mem::forget((a, b, u1, u2));
}

//@ props: C03 C17
//@ tier: thorough
//@ timeout: 1800
//@ functions: hll::union::HllUnion::to_sketch
//@ functions: hll::union::convert_array8_to_type
//@ stubs: HipEstimator::update -> recorder
//@ bounds: gadget = Hll8 array of 4 registers, all symbolic (<= 14 so that the Hll4 copy needs no exception), estimator state symbolic (HIP accumulator, in-order or out-of-order)
//@ replay_stub: hll/estimator.rs | pub fn update(&mut self, lg_config_k: u8, old_value: u8, new_value: u8) { | return self::verif_kani_hll_estimator::rec_update(self, lg_config_k, old_value, new_value);
//@ desc: to_sketch(Hll4 / Hll6 / Hll8) return the same registers, the same out-of-order flag and the same HIP accumulator - hence the same estimate and bounds whatever the requested type
#[kani::proof]
#[kani::unwind(8)]
#[kani::stub(crate::hll::estimator::HipEstimator::update, rec_update)]
fn c03_to_sketch_type_independent() {
    let r = any_regs();
    let mut i = 0;
    while i < NR {
        kani::assume(r[i] <= 14);
        i += 1;
    }
    let ooo: bool = kani::any();
    let hip: f64 = kani::any();
    kani::assume(hip >= 0.0 && hip <= 1.0e6);
    let mut e = ve::raw_estimator(hip, 5.5, 0.25, false);
    e.set_out_of_order(ooo);
    let u = HllUnion { lg_max_k: 4, gadget: HllSketch::from_mode(LG, Mode::Array8(v8::raw_array8(LG, &r, e.clone()))) };
    let s8 = u.to_sketch(HllType::Hll8);
    let s6 = u.to_sketch(HllType::Hll6);
    let s4 = u.to_sketch(HllType::Hll4);
    assert!(s8.target_type() == HllType::Hll8 && s6.target_type() == HllType::Hll6 && s4.target_type() == HllType::Hll4);
    let mut g8 = [0u8; NR];
    let mut g6 = [0u8; NR];
    let mut g4 = [0u8; NR];
    regs_of(&s8, &mut g8);
    regs_of(&s6, &mut g6);
    regs_of(&s4, &mut g4);
    let mut i = 0;
    while i < NR {
        assert!(g8[i] == r[i] && g6[i] == r[i] && g4[i] == r[i], "to_sketch changed a register");
        i += 1;
    }
    let want = if ooo { 0.0 } else { hip };
    match (s8.mode(), s6.mode(), s4.mode()) {
        (Mode::Array8(a8), Mode::Array6(a6), Mode::Array4(a4)) => {
            assert!(a8.is_out_of_order() == ooo && a6.is_out_of_order() == ooo && a4.is_out_of_order() == ooo, "out-of-order flag depends on the target type");
            assert!(a8.hip_accum() == want && a6.hip_accum() == want && a4.hip_accum() == want, "HIP accumulator depends on the target type");
        }
        _ => panic!("wrong modes"),
    }
    kani::cover!(ooo);
    kani::cover!(!ooo && hip > 1.0);
    core::mem::forget((u, s8, s6, s4));
}

//@ props: C03 C17
//@ tier: quick
//@ timeout: 900
//@ functions: hll::union::HllUnion::reset
//@ functions: hll::union::HllUnion::new
//@ functions: hll::union::HllUnion::lg_config_k
//@ functions: hll::union::HllUnion::is_empty
//@ bounds: unions with every lg_max_k in 4..=21 (symbolic) whose gadget was down-sized to an array at lg_k = 3 with symbolic registers, or is still the fresh list
//@ desc: reset() restores the initial state: an empty Hll8 list-mode gadget at lg_max_k (not at the down-sized lg_k), so a reset union behaves like a new one; new() starts empty at lg_max_k
#[kani::proof]
#[kani::unwind(12)]
fn c03_union_reset_restores_initial_state() {
    let lg_max_k: u8 = kani::any();
    kani::assume(lg_max_k >= 4 && lg_max_k <= 21);
    let fresh = HllUnion::new(lg_max_k);
    assert!(fresh.is_empty() && fresh.lg_config_k() == lg_max_k && fresh.lg_max_k() == lg_max_k);
    assert!(matches!(fresh.gadget.mode(), Mode::List { hll_type: HllType::Hll8, .. }));
    let r = any_regs8();
    let downsized: bool = kani::any();
    let mut u = HllUnion {
        lg_max_k,
        gadget: if downsized { sketch8(&r, 3, true) } else { HllSketch::new(lg_max_k, HllType::Hll8) },
    };
    u.reset();
    assert!(u.is_empty(), "reset union is not empty");
    assert!(u.lg_config_k() == lg_max_k, "reset union kept a stale (down-sized) lg_k");
    assert!(u.lg_max_k() == lg_max_k);
    assert!(matches!(u.gadget.mode(), Mode::List { hll_type: HllType::Hll8, .. }), "reset union is not in list mode / Hll8");
    kani::cover!(downsized && lg_max_k == 12);
    core::mem::forget((fresh, u));
}

// ---------------------------------------------------------------------------------------------
// Coupon-mode (list) input into an empty union: the union keeps its configured lg_k
// ---------------------------------------------------------------------------------------------

fn cut_update_from_array(_u: &mut HllUnion, _m: &Mode, _s: u8, _d: u8) {
    panic!("verif cut: array path reached for a list input");
}
fn cut_a4(_a: &mut crate::hll::array4::Array4, _c: u32) {
    panic!("verif cut: array update reached while the gadget is a list");
}
fn cut_a6(_a: &mut crate::hll::array6::Array6, _c: u32) {
    panic!("verif cut: array update reached while the gadget is a list");
}
fn cut_a8(_a: &mut Array8, _c: u32) {
    panic!("verif cut: array update reached while the gadget is a list");
}
fn cut_set(_s: &mut crate::hll::hash_set::HashSet, _c: u32) {
    panic!("verif cut: set update reached while the gadget is a list");
}

fn sparse_first_case(lg_src: u8, lg_max: u8, t: HllType) {
    let c: u32 = kani::any();
    kani::assume(crate::hll::get_value(c) >= 1);
    let mut s = HllSketch::new(lg_src, t);
    s.update_with_coupon(c);
    let mut u = HllUnion::new(lg_max);
    u.update(&s);
    assert!(u.lg_config_k() == lg_max, "a coupon-mode input changed the union's lg_k: only array inputs of smaller lg_k down-size it");
    match u.gadget.mode() {
        Mode::List { list, .. } => {
            assert!(list.container().len() == 1 && list.container().coupons[0] == c, "the input's coupon is not in the union");
        }
        _ => panic!("one coupon cannot promote the gadget"),
    }
    assert!(u.gadget.lg_config_k() == lg_max);
    kani::cover!(true);
    core::mem::forget((s, u));
}

macro_rules! union_sparse_first {
    ($name:ident, $lgs:expr, $lgm:expr, $t:expr) => {
        #[kani::proof]
        #[kani::unwind(10)]
        #[kani::stub(HllUnion::update_from_array, cut_update_from_array)]
        #[kani::stub(crate::hll::array4::Array4::update, cut_a4)]
        #[kani::stub(crate::hll::array6::Array6::update, cut_a6)]
        #[kani::stub(Array8::update, cut_a8)]
        #[kani::stub(crate::hll::hash_set::HashSet::update, cut_set)]
        fn $name() {
            sparse_first_case($lgs, $lgm, $t);
        }
    };
}

//@ family: union_sparse_first
//@ props: C03 C17
//@ tier: thorough
//@ timeout: 7200
//@ functions: hll::union::HllUnion::update
//@ functions: hll::union::HllUnion::update_from_list_or_set
//@ functions: hll::union::merge_coupons_into_gadget
//@ functions: hll::union::convert_coupon_mode_to_hll8
//@ unwind: 10
//@ stubs: update_from_array, Array4/6/8::update, HashSet::update -> must-not-reach cuts (the match on the mode enum is not folded by symbolic execution)
//@ bounds: a fresh union of lg_max_k 5 receiving a list-mode sketch of one symbolic coupon with lg_k 4 (smaller), 5 (equal) or 6 (larger) and the target type of the instance (small lg_k: the array promotions that symbolic execution explores behind the unfolded mode match allocate 2^lg_k registers). Measured: more than 14 GB within 10 min on this machine - kept for larger machines
//@ desc: a coupon-mode input never changes the union's lg_k (coupons are lg_k-independent; only an array-mode input of smaller lg_k down-sizes the union) and its coupon is in the gadget afterwards
union_sparse_first!(c03_union_sparse_first_smaller_k, 4, 5, HllType::Hll4);
union_sparse_first!(c03_union_sparse_first_same_k, 5, 5, HllType::Hll8);
union_sparse_first!(c03_union_sparse_first_larger_k, 6, 5, HllType::Hll6);
//@ endfamily: x

// ---------------------------------------------------------------------------------------------
// The adopt-or-merge decision for a coupon-mode input, for every pair of lg_k (light: the two helpers are
// recorders; what they do with the coupons is C02's subject)
// ---------------------------------------------------------------------------------------------

static mut ADOPTED: u32 = 0;
static mut MERGED: u32 = 0;
/// recorder for convert_coupon_mode_to_hll8: an empty Hll8 sketch at the source's lg_k (the real function
/// returns the source's coupons at the source's lg_k)
pub(crate) fn rec_convert(_m: &Mode, src_lg_k: u8) -> HllSketch {
    unsafe {
        ADOPTED += 1;
    }
    HllSketch::new(src_lg_k, HllType::Hll8)
}
pub(crate) fn rec_merge_coupons(_g: &mut HllSketch, _m: &Mode) {
    unsafe {
        MERGED += 1;
    }
}

//@ props: C03 C17
//@ tier: quick
//@ timeout: 900
//@ functions: hll::union::HllUnion::update
//@ functions: hll::union::HllUnion::update_from_list_or_set
//@ stubs: convert_coupon_mode_to_hll8, merge_coupons_into_gadget -> recorders; update_from_array -> must-not-reach cut
//@ replay_stub: hll/union.rs | fn convert_coupon_mode_to_hll8(src_mode: &Mode, src_lg_k: u8) -> HllSketch { | return self::verif_kani_hll_union::rec_convert(src_mode, src_lg_k);
//@ replay_stub: hll/union.rs | fn merge_coupons_into_gadget(gadget: &mut HllSketch, src_mode: &Mode) { | return self::verif_kani_hll_union::rec_merge_coupons(gadget, src_mode);
//@ bounds: every lg_max_k and every source lg_k in 4..=21 (both symbolic); a fresh union and a list-mode Hll4 source holding one symbolic coupon
//@ desc: an empty union adopts a coupon-mode input (copy at the source's lg_k) only when the source's lg_k equals the union's; otherwise the coupons are merged into the gadget - in both cases the union's lg_k stays lg_max_k: a coupon-mode input never down-sizes (or up-sizes) the union
#[kani::proof]
#[kani::unwind(10)]
#[kani::stub(HllUnion::update_from_array, cut_update_from_array)]
#[kani::stub(convert_coupon_mode_to_hll8, rec_convert)]
#[kani::stub(merge_coupons_into_gadget, rec_merge_coupons)]
fn c03_union_coupon_input_keeps_lg_k() {
    let lg_max: u8 = kani::any();
    let lg_src: u8 = kani::any();
    kani::assume(lg_max >= 4 && lg_max <= 21 && lg_src >= 4 && lg_src <= 21);
    let c: u32 = kani::any();
    kani::assume(crate::hll::get_value(c) >= 1);
    // list-mode source built directly (HllSketch::update_with_coupon's mode match is not folded by symbolic
    // execution and would drag the array updates in)
    let mut list = crate::hll::list::List::default();
    list.update(c);
    let s = HllSketch::from_mode(lg_src, Mode::List { list, hll_type: HllType::Hll4 });
    let mut u = HllUnion::new(lg_max);
    unsafe {
        ADOPTED = 0;
        MERGED = 0;
    }
    u.update(&s);
    let (adopted, merged) = unsafe { (ADOPTED, MERGED) };
    assert!(adopted + merged == 1, "a non-empty coupon-mode input was neither adopted nor merged");
    assert!((adopted == 1) == (lg_src == lg_max), "an empty union adopts a coupon-mode input exactly when the lg_k values are equal");
    assert!(u.lg_config_k() == lg_max, "a coupon-mode input changed the union's lg_k");
    kani::cover!(adopted == 1);
    kani::cover!(merged == 1 && lg_src < lg_max);
    kani::cover!(merged == 1 && lg_src > lg_max);
    core::mem::forget((s, u));
}

// ---------------------------------------------------------------------------------------------
// Coupon-mode inputs, second half of the composition with c03_union_coupon_input_keeps_lg_k: the helpers
// that c03_union_coupon_input_keeps_lg_k replaces by recorders replay / copy EVERY coupon of the source.
// The receiving update() is a recorder (its step semantics are C02's harnesses).
// ---------------------------------------------------------------------------------------------
static mut CR_REC: [u32; 9] = [0; 9];
static mut CR_N: usize = 0;
fn cr_record(c: u32) {
    unsafe {
        if CR_N < 9 {
            CR_REC[CR_N] = c;
        }
        CR_N += 1;
    }
}
pub(crate) fn cr_update_with_coupon(_s: &mut HllSketch, c: u32) {
    cr_record(c)
}
pub(crate) fn cr_array8_update(_a: &mut Array8, c: u32) {
    cr_record(c)
}
fn cr_source(as_set: bool) -> (Mode, [u32; 8]) {
    let slots: [u32; 8] = kani::any();
    let mut c = crate::hll::container::Container::new(3);
    let mut n = 0;
    let mut i = 0;
    while i < 8 {
        c.coupons[i] = slots[i];
        if slots[i] != 0 {
            n += 1;
        }
        i += 1;
    }
    c.len = n;
    unsafe {
        CR_N = 0;
    }
    let t = HllType::Hll4;
    let m = if as_set {
        Mode::Set { set: unsafe { core::mem::transmute::<crate::hll::container::Container, crate::hll::hash_set::HashSet>(c) }, hll_type: t }
    } else {
        Mode::List { list: unsafe { core::mem::transmute::<crate::hll::container::Container, crate::hll::list::List>(c) }, hll_type: t }
    };
    (m, slots)
}
fn cr_check(slots: &[u32; 8]) {
    let mut j = 0usize;
    let mut i = 0;
    while i < 8 {
        if slots[i] != 0 {
            assert!(j < 9 && unsafe { CR_REC[j] } == slots[i], "a coupon of the input sketch was not replayed into the union (or altered)");
            j += 1;
        }
        i += 1;
    }
    assert!(unsafe { CR_N } == j, "the union received something that is not a coupon of the input");
}

//@ props: C03
//@ tier: quick
//@ timeout: 1200
//@ functions: hll::union::merge_coupons_into_gadget
//@ functions: hll::union::merge_coupons_into_mode
//@ functions: hll::container::Container::iter
//@ stubs: HllSketch::update_with_coupon, Array8::update -> recorders
//@ replay_stub: hll/sketch.rs | pub(super) fn update_with_coupon(&mut self, coupon: u32) { | if true { return crate::hll::union::verif_kani_hll_union::cr_update_with_coupon(self, coupon); }
//@ replay_stub: hll/array8.rs | pub fn update(&mut self, coupon: u32) { | if true { return crate::hll::union::verif_kani_hll_union::cr_array8_update(self, coupon); }
//@ bounds: a list-mode and a set-mode source whose 8-slot container has arbitrary contents (0 = empty slot, 0..=8 coupons, any u32 values); gadget / destination array at lg_k = 4
//@ assumes: the receiving update() has the per-slot-maximum step semantics decided by C02's harnesses
//@ desc: merge_coupons_into_gadget (coupon-mode input into a coupon- or array-mode union) and merge_coupons_into_mode (coupon-mode union content into the Hll8 array created when the first array-mode input arrives) hand every coupon of the source exactly once, unaltered, to the receiver and nothing else - for list and set sources
#[kani::proof]
#[kani::unwind(10)]
#[kani::stub(HllSketch::update_with_coupon, cr_update_with_coupon)]
#[kani::stub(Array8::update, cr_array8_update)]
fn c03_union_coupon_replay_contract() {
    let as_set: bool = kani::any();
    let (m, slots) = cr_source(as_set);
    let mut g = HllSketch::new(4, HllType::Hll8);
    merge_coupons_into_gadget(&mut g, &m);
    cr_check(&slots);
    unsafe {
        CR_N = 0;
    }
    let mut a = Array8::new(4);
    merge_coupons_into_mode(&mut a, &m);
    cr_check(&slots);
    kani::cover!(as_set && unsafe { CR_N } == 8);
    kani::cover!(!as_set && unsafe { CR_N } == 0);
    core::mem::forget((m, g, a));
}
