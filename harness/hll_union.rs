//@@ attach: hll/union.rs
//@@ needs: hll_estimator.rs hll_array8.rs hll_array6.rs
// HllUnion: register-wise maximum folded to the smallest lg_k, order independence, out-of-order
// handling, to_sketch independence of the target type.
use super::*;
use crate::hll::array6::verif_kani_hll_array6 as v6;
use crate::hll::array8::verif_kani_hll_array8 as v8;
use crate::hll::estimator::verif_kani_hll_estimator as ve;

fn regs_of(s: &HllSketch, out: &mut [u8]) {
    let n = out.len();
    let mut i = 0;
    while i < n {
        out[i] = match s.mode() {
            Mode::Array4(a) => a.get(i as u32),
            Mode::Array6(a) => a.get(i as u32),
            Mode::Array8(a) => a.get(i as u32),
            _ => panic!("not an array"),
        };
        i += 1;
    }
}

fn any_regs8() -> [u8; 8] {
    let r: [u8; 8] = kani::any();
    let mut i = 0;
    while i < 8 {
        kani::assume(r[i] <= 63);
        i += 1;
    }
    r
}

/// Hll6 array sketch at lg_k = 3 with the given registers (estimator state arbitrary but plausible)
fn sketch6(regs: &[u8; 8], ooo: bool) -> HllSketch {
    let mut e = ve::raw_estimator(if ooo { 0.0 } else { 11.0 }, 8.0, 0.0, false);
    e.set_out_of_order(ooo);
    HllSketch::from_mode(3, Mode::Array6(v6::array6_from_regs(3, regs, e)))
}

fn sketch8(regs: &[u8; 8], ooo: bool) -> HllSketch {
    let mut e = ve::raw_estimator(if ooo { 0.0 } else { 11.0 }, 8.0, 0.0, false);
    e.set_out_of_order(ooo);
    HllSketch::from_mode(3, Mode::Array8(v8::raw_array8(3, regs, e)))
}

//@ props: C03 C17
//@ tier: quick
//@ timeout: 1800
//@ functions: hll::union::HllUnion::update
//@ functions: hll::union::HllUnion::update_from_array
//@ functions: hll::union::copy_or_downsample
//@ functions: hll::union::merge_array_same_lgk
//@ functions: hll::union::merge_array46_same_lgk
//@ functions: hll::union::HllUnion::estimate
//@ bounds: union with lg_max_k = 3..4 (constructed directly; public minimum is 4 - the code is parametric), two array-mode inputs at lg_k = 3 with all 8 registers symbolic: an Hll6 sketch and an Hll8 sketch, each in-order or out-of-order (symbolic flags); both input orders
//@ desc: the gadget holds exactly the register-wise maximum of the inputs, whatever the order; a gadget built from an out-of-order input is itself out-of-order (never an in-order gadget with a zero HIP accumulator), so a union of non-empty inputs cannot report estimate 0 through the HIP path
#[kani::proof]
#[kani::unwind(12)]
fn c03_union_two_arrays_model() {
    let ra = any_regs8();
    let rb = any_regs8();
    let ooo_a: bool = kani::any();
    let ooo_b: bool = kani::any();
    let a = sketch6(&ra, ooo_a);
    let b = sketch8(&rb, ooo_b);
    kani::assume(!a.is_empty() && !b.is_empty());
    let mut u1 = HllUnion { lg_max_k: 4, gadget: HllSketch::new(4, HllType::Hll8) };
    u1.update(&a);
    // after the first (single) input: same registers, and HIP validity
    let mut g = [0u8; 8];
    regs_of(&u1.gadget, &mut g);
    let mut i = 0;
    while i < 8 {
        assert!(g[i] == ra[i], "union of one sketch does not hold that sketch's registers");
        i += 1;
    }
    assert!(u1.lg_config_k() == 3, "union did not shrink to the input's lg_k");
    if let Mode::Array8(arr) = u1.gadget.mode() {
        if !arr.is_out_of_order() {
            assert!(!ooo_a, "out-of-order input produced an in-order gadget");
            assert!(arr.hip_accum() > 0.0, "in-order gadget of a non-empty input has HIP accumulator 0 (estimate would be 0)");
        }
    } else {
        panic!("gadget must be an Hll8 array");
    }
    u1.update(&b);
    let mut u2 = HllUnion { lg_max_k: 4, gadget: HllSketch::new(4, HllType::Hll8) };
    u2.update(&b);
    u2.update(&a);
    let mut g1 = [0u8; 8];
    let mut g2 = [0u8; 8];
    regs_of(&u1.gadget, &mut g1);
    regs_of(&u2.gadget, &mut g2);
    let mut i = 0;
    while i < 8 {
        let m = if ra[i] > rb[i] { ra[i] } else { rb[i] };
        assert!(g1[i] == m, "union is not the register-wise maximum");
        assert!(g2[i] == m, "union depends on the input order");
        i += 1;
    }
    // a merge of two arrays has no valid HIP accumulator
    if let (Mode::Array8(x), Mode::Array8(y)) = (u1.gadget.mode(), u2.gadget.mode()) {
        assert!(x.is_out_of_order() && y.is_out_of_order(), "merged gadget not marked out-of-order");
        assert!(x.estimator() == y.estimator(), "estimator state depends on the input order");
    }
    // idempotence
    u1.update(&a);
    regs_of(&u1.gadget, &mut g2);
    let mut i = 0;
    while i < 8 {
        assert!(g2[i] == g1[i], "repeating an input changed the union");
        i += 1;
    }
    kani::cover!(ooo_a && !ooo_b);
    kani::cover!(!ooo_a && !ooo_b);
    core::mem::forget((a, b, u1, u2));
}

//@ props: C03 C17
//@ tier: quick
//@ timeout: 1800
//@ functions: hll::union::HllUnion::to_sketch
//@ functions: hll::union::convert_array8_to_type
//@ bounds: gadget = Hll8 array at lg_k = 3 with all registers symbolic (<= 14 so that the Hll4 copy needs no exception), estimator state symbolic (HIP accumulator, in-order or out-of-order)
//@ desc: to_sketch(Hll4 / Hll6 / Hll8) return the same registers, the same out-of-order flag and the same estimator state (HIP accumulator, kxq0, kxq1) - hence the same estimate and bounds whatever the requested type
#[kani::proof]
#[kani::unwind(12)]
fn c03_to_sketch_type_independent() {
    let r = any_regs8();
    let mut i = 0;
    while i < 8 {
        kani::assume(r[i] <= 14);
        i += 1;
    }
    let ooo: bool = kani::any();
    let hip: f64 = kani::any();
    kani::assume(hip >= 0.0 && hip <= 1.0e6);
    let mut e = ve::raw_estimator(hip, 5.5, 0.25, false);
    e.set_out_of_order(ooo);
    let u = HllUnion { lg_max_k: 4, gadget: HllSketch::from_mode(3, Mode::Array8(v8::raw_array8(3, &r, e.clone()))) };
    let s8 = u.to_sketch(HllType::Hll8);
    let s6 = u.to_sketch(HllType::Hll6);
    let s4 = u.to_sketch(HllType::Hll4);
    assert!(s8.target_type() == HllType::Hll8 && s6.target_type() == HllType::Hll6 && s4.target_type() == HllType::Hll4);
    let mut g8 = [0u8; 8];
    let mut g6 = [0u8; 8];
    let mut g4 = [0u8; 8];
    regs_of(&s8, &mut g8);
    regs_of(&s6, &mut g6);
    regs_of(&s4, &mut g4);
    let mut i = 0;
    while i < 8 {
        assert!(g8[i] == r[i] && g6[i] == r[i] && g4[i] == r[i], "to_sketch changed a register");
        i += 1;
    }
    let want = if ooo { 0.0 } else { hip };
    match (s8.mode(), s6.mode(), s4.mode()) {
        (Mode::Array8(a8), Mode::Array6(a6), Mode::Array4(a4)) => {
            assert!(a8.is_out_of_order() == ooo && a6.is_out_of_order() == ooo && a4.is_out_of_order() == ooo, "out-of-order flag depends on the target type");
            assert!(a8.hip_accum() == want && a6.hip_accum() == want && a4.hip_accum() == want, "HIP accumulator depends on the target type");
        }
        _ => panic!("wrong modes"),
    }
    kani::cover!(ooo);
    kani::cover!(!ooo && hip > 1.0);
    core::mem::forget((u, s8, s6, s4));
}

//@ props: C03 C17
//@ tier: quick
//@ timeout: 900
//@ functions: hll::union::HllUnion::reset
//@ functions: hll::union::HllUnion::new
//@ functions: hll::union::HllUnion::lg_config_k
//@ functions: hll::union::HllUnion::is_empty
//@ bounds: unions with every lg_max_k in 4..=21 (symbolic) whose gadget was down-sized to an array at lg_k = 3 with symbolic registers, or is still the fresh list
//@ desc: reset() restores the initial state: an empty Hll8 list-mode gadget at lg_max_k (not at the down-sized lg_k), so a reset union behaves like a new one; new() starts empty at lg_max_k
#[kani::proof]
#[kani::unwind(12)]
fn c03_union_reset_restores_initial_state() {
    let lg_max_k: u8 = kani::any();
    kani::assume(lg_max_k >= 4 && lg_max_k <= 21);
    let fresh = HllUnion::new(lg_max_k);
    assert!(fresh.is_empty() && fresh.lg_config_k() == lg_max_k && fresh.lg_max_k() == lg_max_k);
    assert!(matches!(fresh.gadget.mode(), Mode::List { hll_type: HllType::Hll8, .. }));
    let r = any_regs8();
    let downsized: bool = kani::any();
    let mut u = HllUnion {
        lg_max_k,
        gadget: if downsized { sketch8(&r, true) } else { HllSketch::new(lg_max_k, HllType::Hll8) },
    };
    u.reset();
    assert!(u.is_empty(), "reset union is not empty");
    assert!(u.lg_config_k() == lg_max_k, "reset union kept a stale (down-sized) lg_k");
    assert!(u.lg_max_k() == lg_max_k);
    assert!(matches!(u.gadget.mode(), Mode::List { hll_type: HllType::Hll8, .. }), "reset union is not in list mode / Hll8");
    kani::cover!(downsized && lg_max_k == 12);
    core::mem::forget((fresh, u));
}
