//@@ attach: hll/aux_map.rs
// AuxMap (exception table of Hll4) at its lg_k = 4 size (4 slots): insert / get / replace / grow.
use super::*;

pub(crate) fn raw_aux(lg_k: u8, entries: &[u32]) -> AuxMap {
    let mut n = 0;
    let mut i = 0;
    while i < entries.len() {
        if entries[i] != 0 {
            n += 1;
        }
        i += 1;
    }
    let lg_size = if entries.len() == 4 { 2 } else { 3 };
    AuxMap { lg_size, lg_config_k: lg_k, entries: entries.to_vec().into_boxed_slice(), count: n }
}

fn spec_probe(slot: u32, lg: u8, step: u32) -> usize {
    let mask = (1u32 << lg) - 1;
    let stride = (slot >> lg) | 1;
    ((slot & mask).wrapping_add(step.wrapping_mul(stride)) & mask) as usize
}

/// entries hold distinct slots < 16 with values 1..=63, each reachable on its probe path before a hole
pub(crate) fn aux_invariant(m: &AuxMap) -> bool {
    let size = 1usize << m.lg_size;
    if m.entries.len() != size {
        return false;
    }
    let mut n = 0;
    let mut i = 0;
    while i < size {
        let e = m.entries[i];
        if e != 0 {
            n += 1;
            let slot = get_slot(e);
            if slot >= 16 || get_value(e) == 0 {
                return false;
            }
            let mut st = 0u32;
            loop {
                let p = spec_probe(slot, m.lg_size, st);
                if p == i {
                    break;
                }
                if m.entries[p] == 0 {
                    return false;
                }
                st += 1;
                if st as usize >= size {
                    return false;
                }
            }
            let mut j = i + 1;
            while j < size {
                if m.entries[j] != 0 && get_slot(m.entries[j]) == slot {
                    return false;
                }
                j += 1;
            }
        }
        i += 1;
    }
    n == m.count
}

pub(crate) fn entry(m: &AuxMap, i: usize) -> u32 {
    m.entries[i]
}

pub(crate) fn count(m: &AuxMap) -> u32 {
    m.count
}

pub(crate) fn model_get(m: &AuxMap, slot: u32) -> Option<u8> {
    let mut i = 0;
    while i < m.entries.len() {
        if m.entries[i] != 0 && get_slot(m.entries[i]) == slot {
            return Some(get_value(m.entries[i]));
        }
        i += 1;
    }
    None
}

//@ props: C02 C17
//@ tier: quick
//@ timeout: 900
//@ functions: hll::aux_map::AuxMap::insert
//@ functions: hll::aux_map::AuxMap::get
//@ functions: hll::aux_map::AuxMap::replace
//@ functions: hll::aux_map::AuxMap::find
//@ functions: hll::aux_map::AuxMap::grow
//@ functions: hll::aux_map::AuxMap::check_grow
//@ bounds: lg_k = 4 (slots 0..16), table of 4 entries holding 0..=3 exceptions in every valid layout, every offered slot / value; includes the insert that grows the table to 8
//@ assumes: probing invariant of the exception table (aux_invariant), re-established by the step
//@ desc: insert of an absent slot adds exactly that (slot, value); get returns the stored value of every slot before and after; replace overwrites only that slot's value; growth keeps every entry reachable
#[kani::proof]
#[kani::unwind(10)]
fn c02_aux_map_ops() {
    let e: [u32; 4] = kani::any();
    let mut m = raw_aux(4, &e);
    kani::assume(aux_invariant(&m));
    kani::assume(m.count <= 3);
    let slot: u32 = kani::any();
    let other: u32 = kani::any();
    kani::assume(slot < 16 && other < 16 && other != slot);
    let v: u8 = kani::any();
    kani::assume(v >= 1 && v <= 63);
    let before_other = model_get(&m, other);
    assert!(m.get(other) == before_other, "get disagrees with the table contents");
    let had = model_get(&m, slot);
    assert!(m.get(slot) == had);
    let n0 = m.count;
    if had.is_none() {
        m.insert(slot, v);
        assert!(m.count == n0 + 1);
    } else {
        m.replace(slot, v);
        assert!(m.count == n0);
    }
    assert!(aux_invariant(&m), "exception table invariant broken");
    assert!(m.get(slot) == Some(v), "stored exception not read back");
    assert!(m.get(other) == before_other, "another slot's exception changed");
    assert!(4 * m.count <= 3 * (1u32 << m.lg_size), "exception table left over-full");
    kani::cover!(m.lg_size == 3);
    kani::cover!(had.is_some());
    core::mem::forget(m);
}
