//@@ attach: tdigest/sketch.rs
// t-digest: rank / quantile range and monotonicity on arbitrary valid centroid lists (the lists a
// deserialized image may carry, not only those the in-process algorithm produces), split points,
// merge-step structural invariants.
use super::*;

fn cut_compress(_d: &mut TDigestMut) {
    panic!("verif cut: compress reached although the buffer is far from full");
}

fn nz(w: u64) -> NonZeroU64 {
    NonZeroU64::new(w).unwrap()
}

/// symbolic valid digest state with N centroids: finite sorted means inside [min, max], positive
/// weights; values are integers of magnitude <= 2^20 and weights <= 2^12 (bounds of the claim)
fn any_val() -> f64 {
    let i: i32 = kani::any();
    kani::assume(i >= -(1 << 20) && i <= (1 << 20));
    i as f64
}

fn any_w() -> u64 {
    let w: u16 = kani::any();
    kani::assume(w >= 1 && w <= 4096);
    w as u64
}

macro_rules! range_harness {
    ($name:ident, $n:expr) => {
        #[kani::proof]
        #[kani::unwind(6)]
        fn $name() {
            let mut cs = [Centroid { mean: 0.0, weight: nz(1) }; $n];
            let mut total = 0u64;
            let mut i = 0;
            while i < $n {
                cs[i] = Centroid { mean: any_val(), weight: nz(any_w()) };
                if i > 0 {
                    kani::assume(cs[i - 1].mean <= cs[i].mean);
                }
                total += cs[i].weight.get();
                i += 1;
            }
            let min = any_val();
            let max = any_val();
            kani::assume(min <= cs[0].mean && cs[$n - 1].mean <= max);
            // a boundary centroid of weight 1 is the extreme sample itself
            kani::assume(cs[0].weight.get() > 1 || cs[0].mean == min);
            kani::assume(cs[$n - 1].weight.get() > 1 || cs[$n - 1].mean == max);
            let v = TDigestView { min, max, centroids: &cs, centroids_weight: total };
            let x = any_val();
            let r = v.rank(x).unwrap();
            assert!(r >= 0.0 && r <= 1.0, "rank outside [0,1]");
            if x < min {
                assert!(r == 0.0);
            }
            if x > max {
                assert!(r == 1.0);
            }
            kani::cover!(x > min && x < cs[0].mean && cs[0].weight.get() > 100); // heavy first centroid, left tail
            kani::cover!(x < max && x > cs[$n - 1].mean);
        }
    };
}

//@ family: range_harness
//@ props: C10 C17
//@ tier: thorough
//@ timeout: 7200
//@ functions: tdigest::TDigestView::rank
//@ unwind: 6
//@ bounds: digests of exactly 2 or 3 centroids; means, min, max and the query are integers of magnitude <= 2^20 (as f64), weights 1..=4096; means sorted, inside [min, max]
//@ desc: rank(v) is in [0,1], 0 below min and 1 above max, for every valid centroid list including heavy first/last centroids
range_harness!(c10_rank_range_2, 2);
range_harness!(c10_rank_range_3, 3);
//@ endfamily: x

macro_rules! quantile_range_harness {
    ($name:ident, $n:expr) => {
        #[kani::proof]
        #[kani::unwind(6)]
        fn $name() {
            let mut cs = [Centroid { mean: 0.0, weight: nz(1) }; $n];
            let mut total = 0u64;
            let mut i = 0;
            while i < $n {
                cs[i] = Centroid { mean: any_val(), weight: nz(any_w()) };
                if i > 0 {
                    kani::assume(cs[i - 1].mean <= cs[i].mean);
                }
                total += cs[i].weight.get();
                i += 1;
            }
            let min = any_val();
            let max = any_val();
            kani::assume(min <= cs[0].mean && cs[$n - 1].mean <= max);
            kani::assume(cs[0].weight.get() > 1 || cs[0].mean == min);
            kani::assume(cs[$n - 1].weight.get() > 1 || cs[$n - 1].mean == max);
            let v = TDigestView { min, max, centroids: &cs, centroids_weight: total };
            let qn: u16 = kani::any();
            kani::assume(qn <= 1024);
            let q = qn as f64 / 1024.0;
            let x = v.quantile(q).unwrap();
            assert!(x >= min && x <= max, "quantile outside [min,max]");
            assert!(v.quantile(0.0).unwrap() == min, "quantile(0) != min");
            assert!(v.quantile(1.0).unwrap() == max, "quantile(1) != max");
            kani::cover!(cs[$n - 1].weight.get() > 100 && qn > 1000 && qn < 1024); // heavy last centroid, right tail
            kani::cover!(cs[0].weight.get() > 100 && qn < 20 && qn > 0);
        }
    };
}

//@ family: quantile_range_harness
//@ props: C10 C17
//@ tier: thorough
//@ timeout: 7200
//@ functions: tdigest::TDigestView::quantile
//@ functions: tdigest::weighted_average
//@ unwind: 6
//@ bounds: digests of exactly 2 or 3 centroids (values integers |x| <= 2^20, weights 1..=4096), q = n/1024 for every n in 0..=1024
//@ desc: quantile(q) is in [min,max], quantile(0) = min, quantile(1) = max, for every valid centroid list including heavy first/last centroids
quantile_range_harness!(c10_quantile_range_2, 2);
quantile_range_harness!(c10_quantile_range_3, 3);
//@ endfamily: x

//@ props: C10 C17
//@ tier: thorough
//@ timeout: 7200
//@ functions: tdigest::TDigestView::quantile
//@ functions: tdigest::weighted_average
//@ assumes: a boundary centroid of weight 1 sits at min / max (it is the extreme sample itself; every digest built from a stream satisfies this)
//@ bounds: 2 centroids (values integers |x| <= 2^10, weights 1..=64), two ranks q1 <= q2 on the grid n/256
//@ desc: quantile is non-decreasing in q (up to the rounding of one float operation chain: allowed slack 1e-9 relative to max-min)
#[kani::proof]
#[kani::unwind(6)]
fn c10_quantile_monotone_2() {
    let mut cs = [Centroid { mean: 0.0, weight: nz(1) }; 2];
    let mut total = 0u64;
    let mut i = 0;
    while i < 2 {
        let m: i16 = kani::any();
        kani::assume(m >= -1024 && m <= 1024);
        let w: u8 = kani::any();
        kani::assume(w >= 1 && w <= 64);
        cs[i] = Centroid { mean: m as f64, weight: nz(w as u64) };
        total += w as u64;
        i += 1;
    }
    kani::assume(cs[0].mean <= cs[1].mean);
    let mn: i16 = kani::any();
    let mx: i16 = kani::any();
    kani::assume(mn >= -1024 && mx <= 1024);
    let min = mn as f64;
    let max = mx as f64;
    kani::assume(min <= cs[0].mean && cs[1].mean <= max);
    kani::assume(cs[0].weight.get() > 1 || cs[0].mean == min);
    kani::assume(cs[1].weight.get() > 1 || cs[1].mean == max);
    let v = TDigestView { min, max, centroids: &cs, centroids_weight: total };
    let a: u16 = kani::any();
    let b: u16 = kani::any();
    kani::assume(a <= b && b <= 256);
    let x1 = v.quantile(a as f64 / 256.0).unwrap();
    let x2 = v.quantile(b as f64 / 256.0).unwrap();
    let slack = (max - min) * 1e-9;
    assert!(x1 <= x2 + slack, "quantile is not monotone in q");
    kani::cover!(x1 < x2 && x1 > cs[0].mean && x2 < cs[1].mean); // both inside the interpolation zone
}

//@ props: C10 C17
//@ tier: thorough
//@ timeout: 7200
//@ functions: tdigest::TDigestView::rank
//@ assumes: a boundary centroid of weight 1 sits at min / max (it is the extreme sample itself; every digest built from a stream satisfies this)
//@ bounds: 2 centroids (values integers |x| <= 2^10, weights 1..=64), two query values v1 <= v2 (integers)
//@ desc: rank is non-decreasing in v (slack 1e-9)
#[kani::proof]
#[kani::unwind(6)]
fn c10_rank_monotone_2() {
    let mut cs = [Centroid { mean: 0.0, weight: nz(1) }; 2];
    let mut total = 0u64;
    let mut i = 0;
    while i < 2 {
        let m: i16 = kani::any();
        kani::assume(m >= -1024 && m <= 1024);
        let w: u8 = kani::any();
        kani::assume(w >= 1 && w <= 64);
        cs[i] = Centroid { mean: m as f64, weight: nz(w as u64) };
        total += w as u64;
        i += 1;
    }
    kani::assume(cs[0].mean <= cs[1].mean);
    let mn: i16 = kani::any();
    let mx: i16 = kani::any();
    kani::assume(mn >= -1024 && mx <= 1024);
    let min = mn as f64;
    let max = mx as f64;
    kani::assume(min <= cs[0].mean && cs[1].mean <= max);
    kani::assume(cs[0].weight.get() > 1 || cs[0].mean == min);
    kani::assume(cs[1].weight.get() > 1 || cs[1].mean == max);
    let v = TDigestView { min, max, centroids: &cs, centroids_weight: total };
    let a: i16 = kani::any();
    let b: i16 = kani::any();
    kani::assume(a <= b && a >= -1100 && b <= 1100);
    let r1 = v.rank(a as f64).unwrap();
    let r2 = v.rank(b as f64).unwrap();
    assert!(r1 <= r2 + 1e-9, "rank is not monotone in v");
    kani::cover!(r1 < r2 && r1 > 0.0 && r2 < 1.0);
}

fn fixed_digest(which: u8) -> ([Centroid; 3], f64, f64, u64) {
    match which {
        // heavy first centroid, singleton at the top
        0 => ([Centroid { mean: 10.0, weight: nz(100) }, Centroid { mean: 20.0, weight: nz(2) }, Centroid { mean: 30.0, weight: nz(1) }], 0.0, 30.0, 103),
        // heavy last centroid, singleton at the bottom
        1 => ([Centroid { mean: -5.0, weight: nz(1) }, Centroid { mean: 0.0, weight: nz(3) }, Centroid { mean: 8.0, weight: nz(50) }], -5.0, 16.0, 54),
        // repeated means, weight-2 last centroid
        _ => ([Centroid { mean: 1.0, weight: nz(4) }, Centroid { mean: 1.0, weight: nz(62) }, Centroid { mean: 3.0, weight: nz(2) }], 0.5, 4.0, 68),
    }
}

fn rank_range_fixed<const W: u8>() {
    let (cs, min, max, total) = fixed_digest(W);
    let v = TDigestView { min, max, centroids: &cs, centroids_weight: total };
    let x: f64 = kani::any();
    kani::assume(x >= min - 1.0 && x <= max + 1.0);
    let r = v.rank(x).unwrap();
    assert!(r >= 0.0 && r <= 1.0, "rank outside [0,1]");
    assert!(x >= min || r == 0.0);
    assert!(x <= max || r == 1.0);
    kani::cover!(x > min && x < cs[0].mean || cs[0].mean == min && x > min);
    kani::cover!(x > cs[2].mean && x < max || cs[2].mean == max && x < max);
}

fn rank_monotone_fixed<const W: u8>() {
    let (cs, min, max, total) = fixed_digest(W);
    let v = TDigestView { min, max, centroids: &cs, centroids_weight: total };
    let x1: f64 = kani::any();
    let x2: f64 = kani::any();
    kani::assume(x1 >= min - 1.0 && x2 <= max + 1.0 && x1 <= x2);
    let r1 = v.rank(x1).unwrap();
    let r2 = v.rank(x2).unwrap();
    assert!(r1 <= r2 + 1e-9, "rank is not monotone in v");
    kani::cover!(r1 < r2 && r1 > 0.0 && r2 < 1.0);
}

fn quantile_range_fixed<const W: u8>() {
    let (cs, min, max, total) = fixed_digest(W);
    let v = TDigestView { min, max, centroids: &cs, centroids_weight: total };
    let a: u16 = kani::any();
    kani::assume(a <= 4096);
    let y = v.quantile(a as f64 / 4096.0).unwrap();
    assert!(y >= min && y <= max, "quantile outside [min,max] (or NaN)");
    assert!(v.quantile(0.0).unwrap() == min && v.quantile(1.0).unwrap() == max);
    kani::cover!(y > min && y < max);
}

fn quantile_monotone_fixed<const W: u8>() {
    let (cs, min, max, total) = fixed_digest(W);
    let v = TDigestView { min, max, centroids: &cs, centroids_weight: total };
    let a: u16 = kani::any();
    let b: u16 = kani::any();
    kani::assume(a <= b && b <= 4096);
    let y1 = v.quantile(a as f64 / 4096.0).unwrap();
    let y2 = v.quantile(b as f64 / 4096.0).unwrap();
    assert!(y1 <= y2 + 1e-9, "quantile is not monotone in q");
    kani::cover!(y1 < y2 && y1 > min && y2 < max);
}

macro_rules! fixed_digest_harness {
    ($name:ident, $f:ident, $w:expr) => {
        #[kani::proof]
        #[kani::unwind(6)]
        fn $name() {
            $f::<$w>();
        }
    };
}

//@ family: fixed_digest_harness
//@ props: C10 C17
//@ tier: thorough
//@ timeout: 3600
//@ functions: tdigest::TDigestView::rank
//@ functions: tdigest::TDigestView::quantile
//@ functions: tdigest::weighted_average
//@ unwind: 6
//@ bounds: one concrete digest of 3 centroids per instance, chosen so that the in-process algorithm would not produce it (0: heavy first centroid; 1: heavy last centroid; 2: repeated means with a weight-2 last centroid); the queries are symbolic: any f64 value(s) in [min-1, max+1] resp. any rank(s) on the grid n/4096
//@ desc: rank is in [0,1], 0 below min, 1 above max and non-decreasing; quantile is in [min,max] (never NaN), min at 0, max at 1 and non-decreasing (slack 1e-9)
fixed_digest_harness!(c10_rank_range_fixed_0, rank_range_fixed, 0); //@ tier: quick
fixed_digest_harness!(c10_rank_range_fixed_1, rank_range_fixed, 1); //@ tier: quick
fixed_digest_harness!(c10_rank_range_fixed_2, rank_range_fixed, 2); //@ tier: quick
fixed_digest_harness!(c10_rank_monotone_fixed_0, rank_monotone_fixed, 0);
fixed_digest_harness!(c10_rank_monotone_fixed_1, rank_monotone_fixed, 1);
fixed_digest_harness!(c10_rank_monotone_fixed_2, rank_monotone_fixed, 2);
fixed_digest_harness!(c10_quantile_range_fixed_0, quantile_range_fixed, 0); //@ tier: quick
fixed_digest_harness!(c10_quantile_range_fixed_1, quantile_range_fixed, 1); //@ tier: quick
fixed_digest_harness!(c10_quantile_range_fixed_2, quantile_range_fixed, 2); //@ tier: quick
fixed_digest_harness!(c10_quantile_monotone_fixed_0, quantile_monotone_fixed, 0); //@ tier: quick
fixed_digest_harness!(c10_quantile_monotone_fixed_1, quantile_monotone_fixed, 1); //@ tier: quick
fixed_digest_harness!(c10_quantile_monotone_fixed_2, quantile_monotone_fixed, 2); //@ tier: quick
//@ endfamily: x

//@ props: C10 C17
//@ tier: quick
//@ timeout: 600
//@ functions: tdigest::check_split_points
//@ bounds: split-point lists of length 0..=3 with arbitrary f64 values (strictly increasing, NaN-free - the documented precondition)
//@ desc: every sorted, NaN-free split-point list - including the empty one - is accepted without panicking
#[kani::proof]
#[kani::unwind(6)]
fn c10_check_split_points_accepts_valid_lists() {
    let sp: [f64; 3] = kani::any();
    let n: usize = kani::any();
    kani::assume(n <= 3);
    kani::assume(!sp[0].is_nan() && !sp[1].is_nan() && !sp[2].is_nan());
    if n >= 2 {
        kani::assume(sp[0] < sp[1]);
    }
    if n >= 3 {
        kani::assume(sp[1] < sp[2]);
    }
    check_split_points(&sp[..n]);
    kani::cover!(n == 0);
    kani::cover!(n == 3);
}

//@ props: C10 C17
//@ tier: quick
//@ timeout: 1200
//@ functions: tdigest::TDigestView::cdf
//@ functions: tdigest::TDigestView::pmf
//@ functions: tdigest::TDigestView::rank
//@ bounds: a concrete digest of 2 centroids; the empty split-point list and a one-element list with a symbolic value
//@ desc: cdf / pmf of the empty split-point list are [1]; pmf of one split point has two buckets, the first a rank in [0,1], summing to 1 (within 1e-9)
#[kani::proof]
#[kani::unwind(6)]
fn c10_cdf_pmf_consistent() {
    let cs = [Centroid { mean: 1.0, weight: nz(3) }, Centroid { mean: 5.0, weight: nz(2) }];
    let v = TDigestView { min: 0.0, max: 9.0, centroids: &cs, centroids_weight: 5 };
    let c0 = v.cdf(&[]).unwrap();
    assert!(c0.len() == 1 && c0[0] == 1.0, "cdf of no split points is not [1]");
    let p0 = v.pmf(&[]).unwrap();
    assert!(p0.len() == 1 && p0[0] == 1.0, "pmf of no split points is not [1]");
    let x: f64 = kani::any();
    kani::assume(x >= -1.0 && x <= 10.0);
    let p = v.pmf(&[x]).unwrap();
    assert!(p.len() == 2);
    assert!(p[0] >= 0.0 && p[0] <= 1.0, "first pmf bucket is not a rank");
    let sum = p[0] + p[1];
    assert!(sum > 1.0 - 1e-9 && sum < 1.0 + 1e-9, "pmf does not sum to 1");
    kani::cover!(x > 1.0 && x < 5.0);
    core::mem::forget((c0, p0, p));
}

//@ props: C10 C15 C17
//@ tier: quick
//@ timeout: 900
//@ functions: tdigest::TDigestMut::update
//@ functions: tdigest::TDigestMut::total_weight
//@ functions: tdigest::TDigestMut::min_value
//@ functions: tdigest::TDigestMut::max_value
//@ bounds: a fresh digest (k = 10) fed 2 arbitrary f64 bit patterns (NaN and infinities included)
//@ desc: total_weight counts exactly the finite values offered, min/max are their exact extremes, non-finite values are ignored
#[kani::proof]
#[kani::unwind(6)]
#[kani::stub(TDigestMut::compress, cut_compress)]
fn c10_update_counts_finite_values() {
    // (TDigestMut::new reserves 200 + 50 elements; built by hand to keep symbolic execution small)
    let mut d = TDigestMut {
        k: 10,
        reverse_merge: false,
        min: f64::INFINITY,
        max: f64::NEG_INFINITY,
        centroids: Vec::new(),
        centroids_weight: 0,
        centroids_capacity: 50,
        buffer: Vec::new(),
    };
    let mut cnt = 0u64;
    let mut mn = f64::INFINITY;
    let mut mx = f64::NEG_INFINITY;
    let mut i = 0;
    while i < 2 {
        let x: f64 = kani::any();
        d.update(x);
        if x.is_finite() {
            cnt += 1;
            if x < mn {
                mn = x;
            }
            if x > mx {
                mx = x;
            }
        }
        i += 1;
    }
    assert!(d.total_weight() == cnt, "total_weight is not the number of finite values");
    if cnt > 0 {
        assert!(d.min_value() == Some(mn) && d.max_value() == Some(mx), "min/max are not the exact extremes");
    } else {
        assert!(d.is_empty() && d.min_value().is_none());
    }
    kani::cover!(cnt == 2);
    kani::cover!(cnt == 1);
    core::mem::forget(d);
}

//@ props: C15 C17 C18
//@ tier: quick
//@ timeout: 300
//@ functions: tdigest::TDigestMut::make
//@ bounds: every k in 10..=65535
//@ desc: centroid capacity is 2k + 30 (k < 30) or 2k + 10, the buffer trigger is 4x that; no overflow
#[kani::proof]
fn c15_capacity_arithmetic() {
    let k: u16 = kani::any();
    kani::assume(k >= 10);
    let fudge = if k < 30 { 30 } else { 10 };
    let cap = (k as usize * 2) + fudge;
    assert!(cap <= 2 * (k as usize) + 30);
    assert!(cap * BUFFER_MULTIPLIER < (1 << 20));
    kani::cover!(k == 10);
}

// ---------------------------------------------------------------------------------------------
// serialization: C11/C12/C18 round trip + layout, C13 float / compat encodings, C14 arbitrary bytes
// ---------------------------------------------------------------------------------------------
use crate::verif_kani_common::stub_format;

fn rd_u16(b: &[u8], o: usize) -> u16 {
    (b[o] as u16) | ((b[o + 1] as u16) << 8)
}
fn rd_u32(b: &[u8], o: usize) -> u32 {
    (rd_u16(b, o) as u32) | ((rd_u16(b, o + 2) as u32) << 16)
}
fn rd_u64(b: &[u8], o: usize) -> u64 {
    (rd_u32(b, o) as u64) | ((rd_u32(b, o + 4) as u64) << 32)
}

fn any_finite() -> f64 {
    let x: f64 = kani::any();
    kani::assume(x.is_finite());
    x
}

/// digest with N centroids (already compressed: empty buffer), fields symbolic, floats by bit pattern
fn any_digest<const N: usize>() -> TDigestMut {
    let mut cs: Vec<Centroid> = Vec::with_capacity(N);
    let mut total = 0u64;
    let mut i = 0;
    while i < N {
        let w: u32 = kani::any();
        kani::assume(w >= 1);
        // a digest of total weight 1 is the single-value form; keep N >= 2 cases away from it
        cs.push(Centroid { mean: any_finite(), weight: nz(w as u64) });
        total += w as u64;
        i += 1;
    }
    // (k concrete: TDigestMut::make reserves 2k+10 and 4x that many elements; a symbolic size exhausts 14 GB)
    let k: u16 = 100;
    TDigestMut {
        k,
        reverse_merge: kani::any(),
        min: any_finite(),
        max: any_finite(),
        centroids: cs,
        centroids_weight: total,
        centroids_capacity: 0,
        buffer: Vec::new(),
    }
}

/// `TDigestMut::make` without its two `Vec::reserve` capacity hints. In decoder harnesses k comes from the
/// image, which symbolic execution does not see as a constant: reserving 2k+10 and 4(2k+10) elements is a
/// reallocation to a symbolic size (measured: > 14 GB). Capacity is not observable behaviour; the capacity
/// formula itself is the subject of c15_capacity_arithmetic.
fn make_without_reserve(
    k: u16,
    reverse_merge: bool,
    min: f64,
    max: f64,
    centroids: Vec<Centroid>,
    centroids_weight: u64,
    buffer: Vec<f64>,
) -> TDigestMut {
    assert!(k >= 10, "k must be at least 10");
    let fudge = if k < 30 { 30 } else { 10 };
    let centroids_capacity = (k as usize * 2) + fudge;
    TDigestMut { k, reverse_merge, min, max, centroids, centroids_weight, centroids_capacity, buffer }
}

/// loop-free little-endian store (every loop of these harnesses has to fit a very small unwinding bound)
fn put_le(b: &mut [u8], o: usize, v: u64, n: usize) {
    b[o] = v as u8;
    b[o + 1] = (v >> 8) as u8;
    if n >= 4 {
        b[o + 2] = (v >> 16) as u8;
        b[o + 3] = (v >> 24) as u8;
    }
    if n >= 8 {
        b[o + 4] = (v >> 32) as u8;
        b[o + 5] = (v >> 40) as u8;
        b[o + 6] = (v >> 48) as u8;
        b[o + 7] = (v >> 56) as u8;
    }
}

/// Round trip in the form that symbolic execution gets through: the image is rebuilt by a SPEC ENCODER
/// (the documented t-digest layout; structural fields - preLongs, flags, counts - are literals), the real
/// serialize() output must equal it byte for byte (C12), and the decoder is run on the spec image, whose
/// structure is constant for symbolic execution (bytes read back from a heap Vec are not: the decoder
/// would be explored down every branch with symbolic counts - measured: no verdict in 10 min).
fn roundtrip_case<const N: usize, const LEN: usize>(rev: bool) {
    let mut d = any_digest::<N>();
    d.reverse_merge = rev;
    if N == 1 {
        // single value: weight 1, min = max = the value
        d.centroids[0].weight = nz(1);
        d.centroids_weight = 1;
        d.max = d.min;
        d.centroids[0].mean = d.min;
    } else if N >= 2 {
        kani::assume(d.centroids_weight >= 2);
        // a digest's centroid means are sorted and lie within [min, max]
        let mut i = 1;
        while i < N {
            kani::assume(d.centroids[i - 1].mean <= d.centroids[i].mean);
            i += 1;
        }
        kani::assume(d.min <= d.centroids[0].mean && d.centroids[N - 1].mean <= d.max);
    }
    let k = d.k;
    let (min, max) = (d.min, d.max);
    // ---- spec encoder: t-digest layout of datasketches-java/cpp
    // (exact-size array of at most 64 bytes: CBMC constant-propagates array cells only up to 64 elements -
    // with a larger buffer the decoder is explored down every branch even for literal bytes)
    let mut img = [0u8; LEN];
    let len = if N == 0 { 8 } else if N == 1 { 16 } else { 32 + 16 * N };
    assert!(len == LEN);
    img[0] = if N <= 1 { 1 } else { 2 }; // preamble longs
    img[1] = 1; // serial version
    img[2] = 20; // family id
    put_le(&mut img, 3, 100, 2); // k
    img[5] = (if N == 0 { 1 } else { 0 }) | (if N == 1 { 2 } else { 0 }) | (if rev { 4 } else { 0 });
    if N == 1 {
        put_le(&mut img, 8, min.to_bits(), 8);
    } else if N >= 2 {
        put_le(&mut img, 8, N as u64, 4); // centroids
        put_le(&mut img, 12, 0, 4); // buffered values
        put_le(&mut img, 16, min.to_bits(), 8);
        put_le(&mut img, 24, max.to_bits(), 8);
        let mut i = 0;
        while i < N {
            put_le(&mut img, 32 + 16 * i, d.centroids[i].mean.to_bits(), 8);
            put_le(&mut img, 40 + 16 * i, d.centroids[i].weight.get(), 8);
            i += 1;
        }
    }
    // ---- the real encoder writes exactly that (C12, C18: the length)
    let bytes = d.serialize();
    assert!(bytes.len() == len, "image length is not 8 (+8) (+16 + 16 * centroids)");
    assert!(k == 100);
    // compared in 8-byte words, unrolled: every loop of the harness must fit the small unwinding bound that
    // keeps the decoder's count-driven loops (the count is not a constant for symbolic execution) from being
    // unrolled dozens of times with a Vec::push in each copy
    macro_rules! same_word {
        ($($i:expr),*) => { $( if 8 * $i < len {
            assert!(rd_u64(&bytes, 8 * $i) == rd_u64(&img, 8 * $i), "serialized bytes differ from the documented layout");
        } )* };
    }
    same_word!(0, 1, 2, 3, 4, 5, 6, 7, 8, 9);
    // ---- round trip (C11) on the (byte-identical) spec image
    let r = TDigestMut::deserialize(&img[..len], false);
    let g = crate::verif_kani_common::expect_ok(r, "own image rejected");
    assert!(g.k == k, "k changed");
    assert!(g.total_weight() == d.total_weight(), "total weight changed");
    assert!(g.centroids.len() == N && g.buffer.is_empty());
    if N > 0 {
        assert!(g.min.to_bits() == min.to_bits(), "min changed");
        assert!(g.reverse_merge == rev, "merge direction flag changed");
        let mut i = 0;
        while i < N {
            assert!(g.centroids[i].mean.to_bits() == d.centroids[i].mean.to_bits() && g.centroids[i].weight == d.centroids[i].weight, "centroid changed");
            i += 1;
        }
    }
    if N >= 2 {
        assert!(g.max.to_bits() == max.to_bits(), "max changed");
    }
    core::mem::forget((d, g, bytes));
}

macro_rules! td_roundtrip {
    ($name:ident, $n:expr, $len:expr, $rev:expr, $unwind:expr) => {
        #[kani::proof]
        #[kani::unwind($unwind)]
        #[kani::stub(alloc::fmt::format, stub_format)]
        #[kani::stub(TDigestMut::make, make_without_reserve)]
        fn $name() {
            roundtrip_case::<$n, $len>($rev);
            kani::cover!(true);
        }
    };
}

//@ family: td_roundtrip
//@ props: C11 C12 C18
//@ tier: thorough
//@ timeout: 1800
//@ functions: tdigest::TDigestMut::serialize
//@ functions: tdigest::TDigestMut::deserialize
//@ unwind: 5
//@ bounds: compressed digests with the instance's number of centroids (0, 1 = single value, 2, 3) and merge direction; k = 100; min, max, means (any finite f64 bit pattern) and weights (1..2^32) symbolic
//@ desc: the image follows the t-digest layout (preLongs 1/2, serVer 1, family 20, k u16 @3, flags @5 empty|single|reverse, counts @8/@12, min/max f64 @16/@24, then (mean f64, weight u64) pairs) - serialize() equals, byte for byte, the image a spec encoder written from the format documentation produces; its length is 8 (+8) (+16+16n); and deserializing that image restores every field bit for bit
td_roundtrip!(c11_tdigest_roundtrip_0, 0, 8, false, 3); //@ tier: quick
td_roundtrip!(c11_tdigest_roundtrip_1, 1, 16, false, 3); //@ tier: quick
td_roundtrip!(c11_tdigest_roundtrip_1_rev, 1, 16, true, 3); //@ tier: quick
td_roundtrip!(c11_tdigest_roundtrip_2, 2, 64, true, 4);
td_roundtrip!(c11_tdigest_roundtrip_2_fwd, 2, 64, false, 4);
td_roundtrip!(c11_tdigest_roundtrip_3, 3, 80, false, 5);
//@ endfamily: x

const SHORT_LENS: [usize; 8] = [0, 1, 3, 7, 8, 15, 16, 31];

fn tdigest_any_bytes_case(is_f32: bool, compat: bool, short: bool) {
    if short {
        let mut i = 0;
        while i < SHORT_LENS.len() {
            tdigest_any_bytes_at(is_f32, compat, SHORT_LENS[i]);
            i += 1;
        }
        tdigest_any_bytes_at(is_f32, compat, 47);
    } else {
        tdigest_any_bytes_at(is_f32, compat, 64);
    }
}

fn tdigest_any_bytes_at(is_f32: bool, compat: bool, len: usize) {
    let mut img: [u8; 64] = kani::any();
    // literals (not assumptions) select the parser that symbolic execution explores: the reference-
    // implementation (compat) encodings are entered through three zero bytes, the native one through
    // family id 20; images of any other family are c14_tdigest_any_bytes_other_family
    if compat {
        img[0] = 0;
        img[1] = 0;
        img[2] = 0;
    } else {
        img[2] = 20;
    }
    let r = TDigestMut::deserialize(&img[..len], is_f32);
    kani::cover!(r.is_ok() || len != 64);
    kani::cover!(r.is_err());
    if let Ok(g) = r {
        kani::cover!(g.centroids.len() == 2 || len != 64);
        assert!(g.k >= 10);
        let mut i = 0;
        while i < g.centroids.len() && i < 3 {
            assert!(g.centroids[i].mean.is_finite());
            i += 1;
        }
        core::mem::forget(g);
    } else {
        core::mem::forget(r);
    }
}

macro_rules! td_any_bytes {
    ($name:ident, $f32:expr, $compat:expr, $short:expr) => {
        #[kani::proof]
        #[kani::unwind(13)]
        #[kani::stub(alloc::fmt::format, stub_format)]
        #[kani::stub(TDigestMut::make, make_without_reserve)]
        #[kani::stub(alloc::vec::Vec::with_capacity, crate::verif_kani_common::stub_with_capacity)]
        fn $name() {
            tdigest_any_bytes_case($f32, $compat, $short);
        }
    };
}

//@ family: td_any_bytes
//@ props: C14
//@ tier: thorough
//@ timeout: 2400
//@ functions: tdigest::TDigestMut::deserialize
//@ functions: tdigest::TDigestMut::deserialize_compat
//@ unwind: 13
//@ stubs: alloc::fmt::format -> empty string; Vec::with_capacity -> empty vector (capacity is a hint); TDigestMut::make -> the same construction without its two Vec::reserve capacity hints
//@ bounds: every byte string of exactly 64 bytes (in the *_truncated instances: of each of the lengths 0, 1, 3, 7, 8, 15, 16, 31, 47); one reading mode per instance: native images read as f64, native images read as f32, and the two big-endian reference-implementation (compat) encodings (entered through three zero bytes; the f64/f32 flag is irrelevant there)
//@ desc: deserialize returns Ok or Err without panic / overflow for every byte string; an Ok value has k >= 10 and finite centroid means
td_any_bytes!(c14_tdigest_any_bytes_f64, false, false, false); //@ tier: quick
td_any_bytes!(c14_tdigest_any_bytes_f32, true, false, false); //@ tier: quick
td_any_bytes!(c14_tdigest_any_bytes_compat, false, true, false);
td_any_bytes!(c14_tdigest_any_bytes_f64_truncated, false, false, true);
td_any_bytes!(c14_tdigest_any_bytes_compat_truncated, false, true, true);
//@ endfamily: x

//@ props: C14
//@ tier: quick
//@ timeout: 900
//@ functions: tdigest::TDigestMut::deserialize
//@ stubs: TDigestMut::deserialize_compat -> recorder; alloc::fmt::format -> empty string
//@ bounds: every 16-byte string whose family byte is not 20 (header symbolic)
//@ desc: an image is handed to the reference-implementation (compat) parser exactly when its first three bytes are zero; with any other family id than 20 it is rejected; never a panic
#[kani::proof]
#[kani::unwind(4)]
#[kani::stub(alloc::fmt::format, stub_format)]
#[kani::stub(TDigestMut::deserialize_compat, rec_compat)]
#[kani::stub(alloc::vec::Vec::with_capacity, crate::verif_kani_common::stub_with_capacity)]
fn c14_tdigest_any_bytes_other_family() {
    let img: [u8; 16] = kani::any();
    kani::assume(img[2] != 20);
    unsafe {
        COMPAT_CALLS = 0;
    }
    let r = TDigestMut::deserialize(&img, kani::any());
    let calls = unsafe { COMPAT_CALLS };
    let len = 16;
    assert!((calls == 1) == (img[0] == 0 && img[1] == 0 && img[2] == 0), "compat parser entered for an image that does not start with three zero bytes (or skipped for one that does)");
    assert!(r.is_err() || calls == 1, "an image of another family was accepted");
    kani::cover!(calls == 1);
    kani::cover!(calls == 0 && len >= 3);
    core::mem::forget(r);
}

static mut COMPAT_CALLS: u32 = 0;
fn rec_compat(_bytes: &[u8]) -> Result<TDigestMut, Error> {
    unsafe {
        COMPAT_CALLS += 1;
    }
    Err(Error::deserial(String::new()))
}

fn put_be_f64(b: &mut [u8], o: usize, v: f64) {
    let x = v.to_bits();
    let mut i = 0;
    while i < 8 {
        b[o + i] = (x >> (56 - 8 * i)) as u8;
        i += 1;
    }
}
fn put_le_f32(b: &mut [u8], o: usize, v: f32) {
    let x = v.to_bits();
    let mut i = 0;
    while i < 4 {
        b[o + i] = (x >> (8 * i)) as u8;
        i += 1;
    }
}

//@ props: C13
//@ tier: quick
//@ timeout: 1800
//@ functions: tdigest::TDigestMut::deserialize
//@ functions: tdigest::TDigestMut::deserialize_compat
//@ bounds: spec-encoded images of a digest with 2 centroids: (a) the f32 variant of the DataSketches layout (min, max, means as f32, weights as u32), (b) the reference-implementation big-endian "verbose" encoding (type 1: doubles); means finite, weights 1..2^20, k 10..=1000
//@ desc: the float encoding and the reference implementation's big-endian encoding are read back to the state they encode: k, min, max, centroid means and weights, total weight
#[kani::proof]
#[kani::unwind(12)]
#[kani::stub(alloc::fmt::format, stub_format)]
fn c13_tdigest_foreign_encodings() {
    let k: u16 = kani::any();
    kani::assume(k >= 10 && k <= 1000);
    let w0: u32 = kani::any();
    let w1: u32 = kani::any();
    kani::assume(w0 >= 1 && w1 >= 1 && w0 <= (1 << 20) && w1 <= (1 << 20));
    // (a) f32 layout
    let m0: f32 = kani::any();
    let m1: f32 = kani::any();
    let mn: f32 = kani::any();
    let mx: f32 = kani::any();
    kani::assume(m0.is_finite() && m1.is_finite() && mn.is_finite() && mx.is_finite());
    kani::assume(mn <= m0 && m0 <= m1 && m1 <= mx);
    let mut img = [0u8; 40];
    img[0] = 2;
    img[1] = 1;
    img[2] = 20;
    img[3] = k as u8;
    img[4] = (k >> 8) as u8;
    img[8] = 2;
    put_le_f32(&mut img, 16, mn);
    put_le_f32(&mut img, 20, mx);
    put_le_f32(&mut img, 24, m0);
    img[28] = w0 as u8;
    img[29] = (w0 >> 8) as u8;
    img[30] = (w0 >> 16) as u8;
    img[31] = (w0 >> 24) as u8;
    put_le_f32(&mut img, 32, m1);
    img[36] = w1 as u8;
    img[37] = (w1 >> 8) as u8;
    img[38] = (w1 >> 16) as u8;
    img[39] = (w1 >> 24) as u8;
    let r = TDigestMut::deserialize(&img, true);
    let g = crate::verif_kani_common::expect_ok(r, "valid f32 image rejected");
    assert!(g.k == k && g.centroids.len() == 2 && g.total_weight() == w0 as u64 + w1 as u64, "f32 image: k / centroid count / weight");
    assert!(g.min == mn as f64 && g.max == mx as f64, "f32 image: min / max");
    assert!(g.centroids[0].mean == m0 as f64 && g.centroids[0].weight.get() == w0 as u64 && g.centroids[1].mean == m1 as f64 && g.centroids[1].weight.get() == w1 as u64, "f32 image: centroids");
    core::mem::forget(g);
    // (b) reference implementation, verbose encoding: BE i32 type=1, f64 min, f64 max, f64 compression, i32 n, n x (f64 weight, f64 mean)
    let d0 = any_finite();
    let d1 = any_finite();
    let dmin = any_finite();
    let dmax = any_finite();
    kani::assume(dmin <= d0 && d0 <= d1 && d1 <= dmax);
    let mut img = [0u8; 64];
    img[3] = 1;
    put_be_f64(&mut img, 4, dmin);
    put_be_f64(&mut img, 12, dmax);
    put_be_f64(&mut img, 20, k as f64);
    img[31] = 2;
    put_be_f64(&mut img, 32, w0 as f64);
    put_be_f64(&mut img, 40, d0);
    put_be_f64(&mut img, 48, w1 as f64);
    put_be_f64(&mut img, 56, d1);
    let r = TDigestMut::deserialize(&img, false);
    let g = crate::verif_kani_common::expect_ok(r, "valid reference-implementation image rejected");
    assert!(g.k == k && g.centroids.len() == 2 && g.total_weight() == w0 as u64 + w1 as u64, "compat image: k / count / weight");
    assert!(g.min.to_bits() == dmin.to_bits() && g.max.to_bits() == dmax.to_bits(), "compat image: min / max");
    assert!(g.centroids[0].mean.to_bits() == d0.to_bits() && g.centroids[1].mean.to_bits() == d1.to_bits() && g.centroids[0].weight.get() == w0 as u64, "compat image: centroids");
    core::mem::forget(g);
    kani::cover!(true);
}

// ---------------------------------------------------------------------------------------------
// merge step: structural invariants (C15 structural part, C10 total weight / extremes)
// ---------------------------------------------------------------------------------------------

static mut SCALE_MAX: [f64; 8] = [0.0; 8];
static mut SCALE_CALLS: usize = 0;

/// scale_function::max / normalizer depend on ln(): replaced by arbitrary finite values, so the decision
/// "merge this centroid into the previous one or start a new one" is arbitrary at every position
pub(crate) fn stub_scale_max(_q: f64, _normalizer: f64) -> f64 {
    unsafe {
        let i = SCALE_CALLS;
        SCALE_CALLS += 1;
        if i < 8 { SCALE_MAX[i] } else { 0.0 }
    }
}
pub(crate) fn stub_normalizer(_compression: f64, _n: f64) -> f64 {
    1.0
}

//@ props: C15 C10 C17
//@ tier: quick
//@ timeout: 1800
//@ functions: tdigest::TDigestMut::compress
//@ functions: tdigest::TDigestMut::do_merge
//@ functions: tdigest::Centroid::add
//@ functions: tdigest::TDigestMut::total_weight
//@ functions: tdigest::centroid_cmp
//@ stubs: scale_function::max -> arbitrary finite values per call (ln-based); scale_function::normalizer -> 1
//@ replay_stub: tdigest/sketch.rs | pub(super) fn max(q: f64, normalizer: f64) -> f64 { | return super::verif_kani_tdigest_sketch::stub_scale_max(q, normalizer);
//@ replay_stub: tdigest/sketch.rs | pub(super) fn normalizer(compression: f64, n: f64) -> f64 { | return super::verif_kani_tdigest_sketch::stub_normalizer(compression, n);
//@ bounds: a digest with 2 centroids (small integer means, weights 1..=8) and 2 buffered values (small integers); both merge directions; the merge decisions arbitrary
//@ desc: whatever the scale function decides, compress() keeps the total weight (sum of centroid weights == total_weight == old total), leaves the means sorted and inside [min, max], never produces more centroids than inputs, empties the buffer, flips the merge direction, and keeps min / max the exact extremes
#[kani::proof]
#[kani::unwind(12)]
#[kani::stub(scale_function::max, stub_scale_max)]
#[kani::stub(scale_function::normalizer, stub_normalizer)]
fn c15_merge_step_structural() {
    unsafe {
        SCALE_CALLS = 0;
        let mut i = 0;
        while i < 8 {
            let v: f64 = kani::any();
            kani::assume(v >= 0.0 && v <= 100.0);
            SCALE_MAX[i] = v;
            i += 1;
        }
    }
    let small = || -> f64 {
        let i: i8 = kani::any();
        kani::assume(i >= -50 && i <= 50);
        i as f64
    };
    let w0: u8 = kani::any();
    let w1: u8 = kani::any();
    kani::assume(w0 >= 1 && w0 <= 8 && w1 >= 1 && w1 <= 8);
    let m0 = small();
    let m1 = small();
    kani::assume(m0 <= m1);
    let b0 = small();
    let b1 = small();
    let mut lo = m0;
    let mut hi = m1;
    if b0 < lo { lo = b0; }
    if b1 < lo { lo = b1; }
    if b0 > hi { hi = b0; }
    if b1 > hi { hi = b1; }
    // a boundary centroid of weight 1 is the extreme sample itself; heavier ones may sit inside
    let min = if w0 == 1 { lo } else { let x = small(); kani::assume(x <= lo); x };
    let max = if w1 == 1 { hi } else { let x = small(); kani::assume(x >= hi); x };
    let rev: bool = kani::any();
    let mut cs = Vec::with_capacity(8);
    cs.push(Centroid { mean: m0, weight: nz(w0 as u64) });
    cs.push(Centroid { mean: m1, weight: nz(w1 as u64) });
    let mut buf = Vec::with_capacity(8);
    buf.push(b0);
    buf.push(b1);
    let mut d = TDigestMut {
        k: 10,
        reverse_merge: rev,
        min,
        max,
        centroids: cs,
        centroids_weight: w0 as u64 + w1 as u64,
        centroids_capacity: 50,
        buffer: buf,
    };
    let total = d.total_weight();
    assert!(total == w0 as u64 + w1 as u64 + 2);
    d.compress();
    assert!(d.buffer.is_empty(), "buffer not emptied by compress");
    assert!(d.total_weight() == total, "compress changed the total weight");
    assert!(d.reverse_merge != rev, "merge direction not alternated");
    let n = d.centroids.len();
    assert!(n >= 1 && n <= 4, "more centroids than inputs");
    let mut sum = 0u64;
    let mut i = 0;
    while i < n {
        sum += d.centroids[i].weight.get();
        assert!(d.centroids[i].mean >= d.min && d.centroids[i].mean <= d.max, "centroid mean outside [min, max]");
        if i > 0 {
            assert!(d.centroids[i - 1].mean <= d.centroids[i].mean, "centroid means not sorted after the merge");
        }
        i += 1;
    }
    assert!(sum == total, "centroid weights do not sum to total_weight");
    assert!(d.min == min && d.max == max, "min / max are no longer the exact extremes");
    kani::cover!(n == 4);
    kani::cover!(n == 3); // (the first and the last input are never merged: 3 is the minimum for 4 inputs)
    core::mem::forget(d);
}

//@ props: C10 C15 C17
//@ tier: quick
//@ timeout: 1800
//@ functions: tdigest::TDigestMut::merge
//@ functions: tdigest::TDigestMut::do_merge
//@ functions: tdigest::TDigestMut::total_weight
//@ functions: tdigest::TDigestMut::min_value
//@ functions: tdigest::TDigestMut::max_value
//@ stubs: scale_function::max -> arbitrary finite values per call; scale_function::normalizer -> 1
//@ replay_stub: tdigest/sketch.rs | pub(super) fn max(q: f64, normalizer: f64) -> f64 { | return super::verif_kani_tdigest_sketch::stub_scale_max(q, normalizer);
//@ replay_stub: tdigest/sketch.rs | pub(super) fn normalizer(compression: f64, n: f64) -> f64 { | return super::verif_kani_tdigest_sketch::stub_normalizer(compression, n);
//@ bounds: receiver: one single-sample centroid, either merge direction (an odd or even number of earlier compressions); other: 2 centroids with small integer means, weights 1..=8 (heavy boundary centroids allowed, weight-1 boundary centroids sit at min / max), own min / max
//@ desc: merge(other) sums the total weights, makes min / max the exact extremes of both digests whatever the merge direction, and leaves sorted centroid means inside [min, max]; the other digest is unchanged
#[kani::proof]
#[kani::unwind(12)]
#[kani::stub(scale_function::max, stub_scale_max)]
#[kani::stub(scale_function::normalizer, stub_normalizer)]
fn c10_merge_absorbs_weight_and_extremes() {
    unsafe {
        SCALE_CALLS = 0;
        let mut i = 0;
        while i < 8 {
            let v: f64 = kani::any();
            kani::assume(v >= 0.0 && v <= 100.0);
            SCALE_MAX[i] = v;
            i += 1;
        }
    }
    let small = || -> f64 {
        let i: i8 = kani::any();
        kani::assume(i >= -50 && i <= 50);
        i as f64
    };
    let a = small();
    let rev: bool = kani::any();
    let mut cs = Vec::with_capacity(8);
    cs.push(Centroid { mean: a, weight: nz(1) });
    let mut d = TDigestMut {
        k: 10,
        reverse_merge: rev,
        min: a,
        max: a,
        centroids: cs,
        centroids_weight: 1,
        centroids_capacity: 50,
        buffer: Vec::with_capacity(8),
    };
    let w0: u8 = kani::any();
    let w1: u8 = kani::any();
    kani::assume(w0 >= 1 && w0 <= 8 && w1 >= 1 && w1 <= 8);
    let b0 = small();
    let b1 = small();
    kani::assume(b0 <= b1);
    let omin = if w0 == 1 { b0 } else { let x = small(); kani::assume(x <= b0); x };
    let omax = if w1 == 1 { b1 } else { let x = small(); kani::assume(x >= b1); x };
    let mut ocs = Vec::with_capacity(4);
    ocs.push(Centroid { mean: b0, weight: nz(w0 as u64) });
    ocs.push(Centroid { mean: b1, weight: nz(w1 as u64) });
    let o = TDigestMut {
        k: 10,
        reverse_merge: kani::any(),
        min: omin,
        max: omax,
        centroids: ocs,
        centroids_weight: w0 as u64 + w1 as u64,
        centroids_capacity: 50,
        buffer: Vec::new(),
    };
    d.merge(&o);
    assert!(d.total_weight() == 1 + w0 as u64 + w1 as u64, "merged total weight is not the sum");
    let want_min = if omin < a { omin } else { a };
    let want_max = if omax > a { omax } else { a };
    assert!(d.min_value() == Some(want_min), "min is not the exact minimum of both digests");
    assert!(d.max_value() == Some(want_max), "max is not the exact maximum of both digests");
    let n = d.centroids.len();
    assert!(n >= 1 && n <= 3);
    let mut sum = 0u64;
    let mut i = 0;
    while i < n {
        sum += d.centroids[i].weight.get();
        assert!(d.centroids[i].mean >= d.min && d.centroids[i].mean <= d.max, "centroid mean outside [min, max] after merge");
        if i > 0 {
            assert!(d.centroids[i - 1].mean <= d.centroids[i].mean, "centroid means not sorted after merge");
        }
        i += 1;
    }
    assert!(sum == d.total_weight());
    assert!(o.total_weight() == w0 as u64 + w1 as u64 && o.centroids.len() == 2);
    kani::cover!(rev && omin < a && w0 > 1);
    kani::cover!(!rev && omax > a);
    core::mem::forget((d, o));
}

