//@@ attach: tdigest/sketch.rs
// t-digest: rank / quantile range and monotonicity on arbitrary valid centroid lists (the lists a
// deserialized image may carry, not only those the in-process algorithm produces), split points,
// merge-step structural invariants.
use super::*;

fn nz(w: u64) -> NonZeroU64 {
    NonZeroU64::new(w).unwrap()
}

/// symbolic valid digest state with N centroids: finite sorted means inside [min, max], positive
/// weights; values are integers of magnitude <= 2^20 and weights <= 2^12 (bounds of the claim)
fn any_val() -> f64 {
    let i: i32 = kani::any();
    kani::assume(i >= -(1 << 20) && i <= (1 << 20));
    i as f64
}

fn any_w() -> u64 {
    let w: u16 = kani::any();
    kani::assume(w >= 1 && w <= 4096);
    w as u64
}

macro_rules! range_harness {
    ($name:ident, $n:expr) => {
        #[kani::proof]
        #[kani::unwind(6)]
        fn $name() {
            let mut cs = [Centroid { mean: 0.0, weight: nz(1) }; $n];
            let mut total = 0u64;
            let mut i = 0;
            while i < $n {
                cs[i] = Centroid { mean: any_val(), weight: nz(any_w()) };
                if i > 0 {
                    kani::assume(cs[i - 1].mean <= cs[i].mean);
                }
                total += cs[i].weight.get();
                i += 1;
            }
            let min = any_val();
            let max = any_val();
            kani::assume(min <= cs[0].mean && cs[$n - 1].mean <= max);
            let v = TDigestView { min, max, centroids: &cs, centroids_weight: total };
            let x = any_val();
            let r = v.rank(x).unwrap();
            assert!(r >= 0.0 && r <= 1.0, "rank outside [0,1]");
            if x < min {
                assert!(r == 0.0);
            }
            if x > max {
                assert!(r == 1.0);
            }
            kani::cover!(x > min && x < cs[0].mean && cs[0].weight.get() > 100); // heavy first centroid, left tail
            kani::cover!(x < max && x > cs[$n - 1].mean);
        }
    };
}

//@ family: range_harness
//@ props: C10 C17
//@ tier: thorough
//@ timeout: 1800
//@ functions: tdigest::TDigestView::rank
//@ unwind: 6
//@ bounds: digests of exactly 2 or 3 centroids; means, min, max and the query are integers of magnitude <= 2^20 (as f64), weights 1..=4096; means sorted, inside [min, max]
//@ desc: rank(v) is in [0,1], 0 below min and 1 above max, for every valid centroid list including heavy first/last centroids
range_harness!(c10_rank_range_2, 2); //@ tier: quick
range_harness!(c10_rank_range_3, 3);
//@ endfamily: x

macro_rules! quantile_range_harness {
    ($name:ident, $n:expr) => {
        #[kani::proof]
        #[kani::unwind(6)]
        fn $name() {
            let mut cs = [Centroid { mean: 0.0, weight: nz(1) }; $n];
            let mut total = 0u64;
            let mut i = 0;
            while i < $n {
                cs[i] = Centroid { mean: any_val(), weight: nz(any_w()) };
                if i > 0 {
                    kani::assume(cs[i - 1].mean <= cs[i].mean);
                }
                total += cs[i].weight.get();
                i += 1;
            }
            let min = any_val();
            let max = any_val();
            kani::assume(min <= cs[0].mean && cs[$n - 1].mean <= max);
            let v = TDigestView { min, max, centroids: &cs, centroids_weight: total };
            let qn: u16 = kani::any();
            kani::assume(qn <= 1024);
            let q = qn as f64 / 1024.0;
            let x = v.quantile(q).unwrap();
            assert!(x >= min && x <= max, "quantile outside [min,max]");
            assert!(v.quantile(0.0).unwrap() == min, "quantile(0) != min");
            assert!(v.quantile(1.0).unwrap() == max, "quantile(1) != max");
            kani::cover!(cs[$n - 1].weight.get() > 100 && qn > 1000 && qn < 1024); // heavy last centroid, right tail
            kani::cover!(cs[0].weight.get() > 100 && qn < 20 && qn > 0);
        }
    };
}

//@ family: quantile_range_harness
//@ props: C10 C17
//@ tier: thorough
//@ timeout: 1800
//@ functions: tdigest::TDigestView::quantile
//@ functions: tdigest::weighted_average
//@ unwind: 6
//@ bounds: digests of exactly 2 or 3 centroids (values integers |x| <= 2^20, weights 1..=4096), q = n/1024 for every n in 0..=1024
//@ desc: quantile(q) is in [min,max], quantile(0) = min, quantile(1) = max, for every valid centroid list including heavy first/last centroids
quantile_range_harness!(c10_quantile_range_2, 2); //@ tier: quick
quantile_range_harness!(c10_quantile_range_3, 3);
//@ endfamily: x

//@ props: C10 C17
//@ tier: quick
//@ timeout: 1800
//@ functions: tdigest::TDigestView::quantile
//@ functions: tdigest::weighted_average
//@ bounds: 2 centroids (values integers |x| <= 2^10, weights 1..=64), two ranks q1 <= q2 on the grid n/256
//@ desc: quantile is non-decreasing in q (up to the rounding of one float operation chain: allowed slack 1e-9 relative to max-min)
#[kani::proof]
#[kani::unwind(6)]
fn c10_quantile_monotone_2() {
    let mut cs = [Centroid { mean: 0.0, weight: nz(1) }; 2];
    let mut total = 0u64;
    let mut i = 0;
    while i < 2 {
        let m: i16 = kani::any();
        kani::assume(m >= -1024 && m <= 1024);
        let w: u8 = kani::any();
        kani::assume(w >= 1 && w <= 64);
        cs[i] = Centroid { mean: m as f64, weight: nz(w as u64) };
        total += w as u64;
        i += 1;
    }
    kani::assume(cs[0].mean <= cs[1].mean);
    let mn: i16 = kani::any();
    let mx: i16 = kani::any();
    kani::assume(mn >= -1024 && mx <= 1024);
    let min = mn as f64;
    let max = mx as f64;
    kani::assume(min <= cs[0].mean && cs[1].mean <= max);
    let v = TDigestView { min, max, centroids: &cs, centroids_weight: total };
    let a: u16 = kani::any();
    let b: u16 = kani::any();
    kani::assume(a <= b && b <= 256);
    let x1 = v.quantile(a as f64 / 256.0).unwrap();
    let x2 = v.quantile(b as f64 / 256.0).unwrap();
    let slack = (max - min) * 1e-9;
    assert!(x1 <= x2 + slack, "quantile is not monotone in q");
    kani::cover!(x1 < x2 && x1 > cs[0].mean && x2 < cs[1].mean); // both inside the interpolation zone
}

//@ props: C10 C17
//@ tier: quick
//@ timeout: 1800
//@ functions: tdigest::TDigestView::rank
//@ bounds: 2 centroids (values integers |x| <= 2^10, weights 1..=64), two query values v1 <= v2 (integers)
//@ desc: rank is non-decreasing in v (slack 1e-9)
#[kani::proof]
#[kani::unwind(6)]
fn c10_rank_monotone_2() {
    let mut cs = [Centroid { mean: 0.0, weight: nz(1) }; 2];
    let mut total = 0u64;
    let mut i = 0;
    while i < 2 {
        let m: i16 = kani::any();
        kani::assume(m >= -1024 && m <= 1024);
        let w: u8 = kani::any();
        kani::assume(w >= 1 && w <= 64);
        cs[i] = Centroid { mean: m as f64, weight: nz(w as u64) };
        total += w as u64;
        i += 1;
    }
    kani::assume(cs[0].mean <= cs[1].mean);
    let mn: i16 = kani::any();
    let mx: i16 = kani::any();
    kani::assume(mn >= -1024 && mx <= 1024);
    let min = mn as f64;
    let max = mx as f64;
    kani::assume(min <= cs[0].mean && cs[1].mean <= max);
    let v = TDigestView { min, max, centroids: &cs, centroids_weight: total };
    let a: i16 = kani::any();
    let b: i16 = kani::any();
    kani::assume(a <= b && a >= -1100 && b <= 1100);
    let r1 = v.rank(a as f64).unwrap();
    let r2 = v.rank(b as f64).unwrap();
    assert!(r1 <= r2 + 1e-9, "rank is not monotone in v");
    kani::cover!(r1 < r2 && r1 > 0.0 && r2 < 1.0);
}

//@ props: C10 C17
//@ tier: quick
//@ timeout: 600
//@ functions: tdigest::check_split_points
//@ functions: tdigest::TDigestView::cdf
//@ functions: tdigest::TDigestView::pmf
//@ bounds: split-point lists of length 0..=3 with arbitrary finite sorted values; digest of 2 centroids
//@ desc: every sorted, NaN-free split-point list - including the empty one - is accepted without panicking; cdf ends with 1, has len+1 entries, pmf sums to 1 (within 1e-9)
#[kani::proof]
#[kani::unwind(6)]
fn c10_split_points_and_cdf() {
    let sp: [f64; 3] = [any_val(), any_val(), any_val()];
    let n: usize = kani::any();
    kani::assume(n <= 3);
    if n >= 2 {
        kani::assume(sp[0] < sp[1]);
    }
    if n >= 3 {
        kani::assume(sp[1] < sp[2]);
    }
    check_split_points(&sp[..n]);
    let cs = [Centroid { mean: 1.0, weight: nz(3) }, Centroid { mean: 5.0, weight: nz(2) }];
    let v = TDigestView { min: 0.0, max: 9.0, centroids: &cs, centroids_weight: 5 };
    let c = v.cdf(&sp[..n]).unwrap();
    assert!(c.len() == n + 1);
    assert!(c[n] == 1.0);
    let p = v.pmf(&sp[..n]).unwrap();
    let mut sum = 0.0;
    let mut i = 0;
    while i < p.len() {
        sum += p[i];
        i += 1;
    }
    assert!(sum > 1.0 - 1e-9 && sum < 1.0 + 1e-9, "pmf does not sum to 1");
    kani::cover!(n == 0);
    kani::cover!(n == 3);
    core::mem::forget((c, p));
}

//@ props: C10 C15 C17
//@ tier: quick
//@ timeout: 900
//@ functions: tdigest::TDigestMut::update
//@ functions: tdigest::TDigestMut::total_weight
//@ functions: tdigest::TDigestMut::min_value
//@ functions: tdigest::TDigestMut::max_value
//@ bounds: a fresh digest (k = 10) fed 3 arbitrary f64 bit patterns (NaN and infinities included)
//@ desc: total_weight counts exactly the finite values offered, min/max are their exact extremes, non-finite values are ignored
#[kani::proof]
#[kani::unwind(6)]
fn c10_update_counts_finite_values() {
    let mut d = TDigestMut::new(10);
    let mut cnt = 0u64;
    let mut mn = f64::INFINITY;
    let mut mx = f64::NEG_INFINITY;
    let mut i = 0;
    while i < 3 {
        let x: f64 = kani::any();
        d.update(x);
        if x.is_finite() {
            cnt += 1;
            if x < mn {
                mn = x;
            }
            if x > mx {
                mx = x;
            }
        }
        i += 1;
    }
    assert!(d.total_weight() == cnt, "total_weight is not the number of finite values");
    if cnt > 0 {
        assert!(d.min_value() == Some(mn) && d.max_value() == Some(mx), "min/max are not the exact extremes");
    } else {
        assert!(d.is_empty() && d.min_value().is_none());
    }
    kani::cover!(cnt == 2);
    core::mem::forget(d);
}

//@ props: C15 C17 C18
//@ tier: quick
//@ timeout: 300
//@ functions: tdigest::TDigestMut::make
//@ bounds: every k in 10..=65535
//@ desc: centroid capacity is 2k + 30 (k < 30) or 2k + 10, the buffer trigger is 4x that; no overflow
#[kani::proof]
fn c15_capacity_arithmetic() {
    let k: u16 = kani::any();
    kani::assume(k >= 10);
    let fudge = if k < 30 { 30 } else { 10 };
    let cap = (k as usize * 2) + fudge;
    assert!(cap <= 2 * (k as usize) + 30);
    assert!(cap * BUFFER_MULTIPLIER < (1 << 20));
    kani::cover!(k == 10);
}
