//@@ attach: frequencies/sketch.rs
//@@ needs: frequencies_map.rs
// FrequentItemsSketch<u64> with max map size 8: bracket lb <= true <= ub for EVERY key of the domain
// (ghost true counts), exact total weight, error bound, capacity, merge, serialization.
#![allow(static_mut_refs)]
use super::*;
use crate::frequencies::reverse_purge_item_hash_map::ReversePurgeItemHashMap;
use crate::frequencies::reverse_purge_item_hash_map::verif_kani_frequencies_map as vm;
use crate::frequencies::reverse_purge_item_hash_map::verif_kani_frequencies_map::verif_hash_item;
use crate::verif_kani_common::stub_format;

const D: usize = vm::D;

/// Arbitrary sketch with lg_max_map_size = 3 (map size 8, capacity 6) satisfying the sketch invariant,
/// together with ghost true counts t[x] for every key of the domain.
struct World {
    s: FrequentItemsSketch<u64>,
    t: [u64; D],
}

fn sum_values(s: &FrequentItemsSketch<u64>) -> u64 {
    let mut sum = 0u64;
    let mut x = 0;
    while x < D {
        sum += vm::model_get(&s.hash_map, x as u64);
        x += 1;
    }
    sum
}

/// bracket for every key; exact weight; amortisation invariant 3*offset + sum(counters) <= N
/// (3 = limit - mid for sample size 6), which gives maximum_error <= N/3 <= epsilon*N (epsilon = 3.5/8).
fn sketch_invariant(w: &World) -> bool {
    let s = &w.s;
    if !vm::map_invariant(&s.hash_map) {
        return false;
    }
    if s.lg_max_map_size != 3 || s.cur_map_cap != 6 || s.sample_size != 6 {
        return false;
    }
    if s.hash_map.num_active() > 6 {
        return false;
    }
    let mut total: u64 = 0;
    let mut x = 0;
    while x < D {
        let lb = vm::model_get(&s.hash_map, x as u64);
        if !(lb <= w.t[x] && w.t[x] <= lb + s.offset) {
            return false;
        }
        total += w.t[x];
        x += 1;
    }
    if total != s.stream_weight {
        return false;
    }
    3 * s.offset + sum_values(s) <= s.stream_weight
}

fn any_world() -> World {
    world_from(vm::any_map())
}

fn world_with_layout(layout: [u16; 8]) -> World {
    world_from(vm::map_with_layout(layout))
}

fn world_from(m: ReversePurgeItemHashMap<u64>) -> World {
    kani::assume(m.num_active() <= 6);
    let offset: u64 = kani::any();
    kani::assume(offset < (1u64 << 58));
    let mut t = [0u64; D];
    let mut total = 0u64;
    let mut x = 0;
    while x < D {
        t[x] = kani::any();
        kani::assume(t[x] < (1u64 << 60));
        total += t[x];
        x += 1;
    }
    let w = World {
        s: FrequentItemsSketch {
            lg_max_map_size: 3,
            cur_map_cap: 6,
            offset,
            stream_weight: total,
            sample_size: 6,
            hash_map: m,
        },
        t,
    };
    kani::assume(sketch_invariant(&w));
    w
}

fn check_all(w: &World) {
    let s = &w.s;
    let mut x = 0;
    while x < D {
        let k = x as u64;
        let lb = s.lower_bound(&k);
        let ub = s.upper_bound(&k);
        assert!(lb <= w.t[x], "lower_bound exceeds the true count");
        assert!(w.t[x] <= ub, "upper_bound is below the true count");
        assert!(ub - lb <= s.maximum_error(), "ub - lb exceeds maximum_error");
        let e = s.estimate(&k);
        assert!(e == 0 || (lb <= e && e <= ub));
        x += 1;
    }
    assert!(s.num_active_items() <= s.maximum_map_capacity(), "more active items than the maximum map capacity");
    assert!(3 * s.maximum_error() <= s.total_weight(), "maximum_error exceeds total_weight/3 (< epsilon*N)");
}

fn update_case(layout: [u16; 8]) {
    vm::init_home();
    let mut w = world_with_layout(layout);
    let y: u64 = kani::any();
    kani::assume((y as usize) < D);
    let c: u64 = kani::any();
    kani::assume(c >= 1 && c < (1u64 << 58));
    let n0 = w.s.total_weight();
    let off0 = w.s.offset;
    w.s.update_with_count(y, c);
    w.t[y as usize] += c;
    assert!(w.s.total_weight() == n0 + c, "total_weight is not the exact stream weight");
    check_all(&w);
    assert!(sketch_invariant(&w), "sketch invariant not re-established by update");
    kani::cover!(w.s.offset > off0 || layout[3] == 0 && layout[0] == 0); // the purging step is inside (6-key layouts)
    kani::cover!(w.s.offset == off0);
    core::mem::forget(w);
}

macro_rules! update_layout {
    ($name:ident, $layout:expr) => {
        #[kani::proof]
        #[kani::unwind(10)]
        #[kani::stub(crate::frequencies::reverse_purge_item_hash_map::hash_item, verif_hash_item)]
        #[kani::stub(<[u64]>::select_nth_unstable, crate::verif_kani_common::model_select_nth)]
        fn $name() {
            update_case($layout);
        }
    };
}

//@ family: update_layout
//@ props: C07 C17 C18
//@ tier: thorough
//@ timeout: 2400
//@ functions: frequencies::FrequentItemsSketch::update_with_count
//@ functions: frequencies::FrequentItemsSketch::maybe_resize_or_purge
//@ functions: frequencies::FrequentItemsSketch::lower_bound
//@ functions: frequencies::FrequentItemsSketch::upper_bound
//@ functions: frequencies::FrequentItemsSketch::estimate
//@ functions: frequencies::FrequentItemsSketch::maximum_error
//@ functions: frequencies::ReversePurgeItemHashMap::purge
//@ unwind: 10
//@ stubs: hash_item -> symbolic home table; select_nth_unstable -> reference model
//@ bounds: max map size 8 (capacity 6); table in the occupancy layout of the instance (6 keys flat / in collision chains / wrap-around: the update of a 7th key purges; 3 keys: no purge), keys, home slots, counters, ghost true counts (< 2^60), offset (< 2^58) and the update weight (1..2^58) symbolic; key domain 0..8
//@ assumes: sketch invariant (probing invariant; lb(x) <= t(x) <= lb(x)+offset for every key; stream_weight = sum of true counts; 3*offset + sum(counters) <= stream_weight; num_active <= 6) - inductive: this harness re-establishes it, new() satisfies it
//@ replay_stub: frequencies/reverse_purge_item_hash_map.rs | fn hash_item<T: Hash>(item: &T) -> u64 { | return self::verif_kani_frequencies_map::verif_hash_item(item);
//@ desc: one update_with_count(y, w) (including the step that purges): the bracket holds afterwards for every key of the domain against t + w[x=y], total_weight exact, ub-lb <= maximum_error <= N/3, num_active <= capacity, invariant re-established, no panic
update_layout!(c07_update_step_6_flat, vm::LAYOUT_6_FLAT); //@ tier: quick
update_layout!(c07_update_step_6_clusters, vm::LAYOUT_6_CLUSTERS);
update_layout!(c07_update_step_6_wrap, vm::LAYOUT_6_WRAP);
update_layout!(c07_update_step_3, vm::LAYOUT_3); //@ tier: quick
//@ endfamily: x

//@ props: C07
//@ tier: quick
//@ timeout: 900
//@ functions: frequencies::FrequentItemsSketch::new
//@ functions: frequencies::FrequentItemsSketch::with_lg_map_sizes
//@ bounds: new(8)
//@ desc: base case of the induction: a fresh sketch of max map size 8 satisfies the sketch invariant with all true counts 0
#[kani::proof]
#[kani::unwind(10)]
#[kani::stub(crate::frequencies::reverse_purge_item_hash_map::hash_item, verif_hash_item)]
fn c07_new_satisfies_invariant() {
    vm::init_home();
    let s: FrequentItemsSketch<u64> = FrequentItemsSketch::new(8);
    let w = World { s, t: [0; D] };
    assert!(sketch_invariant(&w));
    assert!(w.s.is_empty() && w.s.total_weight() == 0 && w.s.maximum_error() == 0);
    assert!(w.s.maximum_map_capacity() == 6 && w.s.current_map_capacity() == 6);
    kani::cover!(true);
    core::mem::forget(w);
}

fn merge_case(la: [u16; 8], lb: [u16; 8]) {
    vm::init_home();
    let mut a = world_with_layout(la);
    let b = world_with_layout(lb);
    let na = a.s.total_weight();
    let nb = b.s.total_weight();
    a.s.merge(&b.s);
    let mut x = 0;
    while x < D {
        a.t[x] += b.t[x];
        x += 1;
    }
    assert!(a.s.total_weight() == na + nb, "merged total_weight is not the sum of the operands");
    check_all(&a);
    assert!(sketch_invariant(&a), "sketch invariant not re-established by merge");
    assert!(b.s.total_weight() == nb);
    kani::cover!(nb > 0 && b.s.offset > 0);
    core::mem::forget((a, b));
}

macro_rules! merge_layout {
    ($name:ident, $la:expr, $lb:expr) => {
        #[kani::proof]
        #[kani::unwind(10)]
        #[kani::stub(crate::frequencies::reverse_purge_item_hash_map::hash_item, verif_hash_item)]
        #[kani::stub(<[u64]>::select_nth_unstable, crate::verif_kani_common::model_select_nth)]
        fn $name() {
            merge_case($la, $lb);
        }
    };
}

//@ family: merge_layout
//@ props: C07 C17 C18
//@ tier: thorough
//@ timeout: 3000
//@ functions: frequencies::FrequentItemsSketch::merge
//@ functions: frequencies::FrequentItemsSketch::update_with_count
//@ functions: frequencies::ReversePurgeItemIter::next
//@ unwind: 10
//@ stubs: hash_item -> symbolic home table; select_nth_unstable -> reference model
//@ bounds: self and other are size-8 sketches in the occupancy layouts of the instance (self: 3 or 6 keys; other: no active key - the state an all-equal purge leaves, with stream_weight > 0 and offset > 0 - or 1 key); all keys, home slots, counters, offsets and ghost true counts symbolic
//@ assumes: both operands satisfy the sketch invariant with their own ghost true counts (same hash function)
//@ replay_stub: frequencies/reverse_purge_item_hash_map.rs | fn hash_item<T: Hash>(item: &T) -> u64 { | return self::verif_kani_frequencies_map::verif_hash_item(item);
//@ desc: merge(other): for every key lb <= t_self + t_other <= ub, total_weight = sum of both, ub-lb <= maximum_error <= N/3, capacity respected, other unchanged
merge_layout!(c07_merge_step_3_purged, vm::LAYOUT_3, vm::LAYOUT_0); //@ tier: quick
merge_layout!(c07_merge_step_3_one, vm::LAYOUT_3, vm::LAYOUT_1); //@ tier: quick
merge_layout!(c07_merge_step_6_one, vm::LAYOUT_6_CLUSTERS, vm::LAYOUT_1);
//@ endfamily: x

//@ props: C07
//@ tier: quick
//@ timeout: 1500
//@ functions: frequencies::FrequentItemsSketch::frequent_items
//@ functions: frequencies::FrequentItemsSketch::frequent_items_with_threshold
//@ functions: frequencies::ReversePurgeItemIter::next
//@ bounds: a size-8 sketch with 3 active items (two of them in a collision chain), every threshold, both error types
//@ assumes: sketch invariant (bracket for every key)
//@ replay_stub: frequencies/reverse_purge_item_hash_map.rs | fn hash_item<T: Hash>(item: &T) -> u64 { | return self::verif_kani_frequencies_map::verif_hash_item(item);
//@ desc: NoFalsePositives rows all have true count > max(threshold, offset); under NoFalseNegatives every tracked key whose true count exceeds the threshold is returned (untracked keys have t <= offset <= threshold); rows carry the key's bounds, each active key at most once
#[kani::proof]
#[kani::unwind(10)]
#[kani::stub(crate::frequencies::reverse_purge_item_hash_map::hash_item, verif_hash_item)]
fn c07_frequent_items() {
    vm::init_home();
    let w = world_with_layout(vm::LAYOUT_3);
    let thr: u64 = kani::any();
    let eff = if thr > w.s.offset { thr } else { w.s.offset };
    let nfp = w.s.frequent_items_with_threshold(ErrorType::NoFalsePositives, thr);
    let nfn = w.s.frequent_items_with_threshold(ErrorType::NoFalseNegatives, thr);
    assert!(nfp.len() <= 3 && nfn.len() <= 3);
    let mut i = 0;
    while i < nfp.len() {
        let r = &nfp[i];
        let k = *r.item();
        assert!((k as usize) < D);
        assert!(w.t[k as usize] > eff, "NoFalsePositives returned an item whose true count is not above the threshold");
        assert!(r.lower_bound() == w.s.lower_bound(&k) && r.upper_bound() == w.s.upper_bound(&k));
        i += 1;
    }
    let x: u64 = kani::any();
    kani::assume((x as usize) < D);
    if w.t[x as usize] > eff {
        let mut found = 0;
        let mut i = 0;
        while i < nfn.len() {
            if *nfn[i].item() == x {
                found += 1;
            }
            i += 1;
        }
        assert!(found == 1, "NoFalseNegatives missed an item whose true count exceeds the threshold");
    }
    // sorted by estimate, descending
    if nfn.len() >= 2 {
        assert!(nfn[0].estimate() >= nfn[1].estimate());
    }
    kani::cover!(nfp.len() == 1 && nfn.len() == 3);
    kani::cover!(nfp.len() == 0);
    core::mem::forget((w, nfp, nfn));
}

// ---------------------------------------------------------------------------------------------
// serialization (u64 items): C11 round trip, C12 layout, C14 arbitrary bytes
// ---------------------------------------------------------------------------------------------

fn rd_u32(b: &[u8], o: usize) -> u32 {
    (b[o] as u32) | ((b[o + 1] as u32) << 8) | ((b[o + 2] as u32) << 16) | ((b[o + 3] as u32) << 24)
}
fn rd_u64(b: &[u8], o: usize) -> u64 {
    (rd_u32(b, o) as u64) | ((rd_u32(b, o + 4) as u64) << 32)
}

//@ props: C11 C12 C07
//@ tier: quick
//@ timeout: 2400
//@ functions: frequencies::FrequentItemsSketch::serialize
//@ functions: frequencies::FrequentItemsSketch::serialize_inner
//@ functions: frequencies::FrequentItemsSketch::deserialize
//@ functions: frequencies::FrequentItemsSketch::deserialize_inner
//@ bounds: size-8 sketches with 0 or 1 active u64 item, arbitrary offset and stream weight - including the purged-to-empty state (no active item, stream_weight > 0, offset > 0)
//@ assumes: sketch invariant (valid probing table)
//@ replay_stub: frequencies/reverse_purge_item_hash_map.rs | fn hash_item<T: Hash>(item: &T) -> u64 { | return self::verif_kani_frequencies_map::verif_hash_item(item);
//@ desc: serialize() follows the Frequent Items layout (preLongs 1/4, serVer 1, family 10, lgMax @3, lgCur @4, flags @5 with empty bit 2, activeItems u32 @8, streamWeight u64 @16, offset u64 @24, then counts, then items) read by an independent decoder; deserialize(serialize(s)) has the same total weight, maximum error and per-item bounds for every key
#[kani::proof]
#[kani::unwind(10)]
#[kani::stub(crate::frequencies::reverse_purge_item_hash_map::hash_item, verif_hash_item)]
#[kani::stub(alloc::fmt::format, stub_format)]
#[kani::stub(<[u64]>::select_nth_unstable, crate::verif_kani_common::model_select_nth)]
fn c11_frequencies_roundtrip_layout() {
    vm::init_home();
    let which: u8 = kani::any();
    kani::assume(which < 2);
    let w = if which == 0 { world_with_layout(vm::LAYOUT_0) } else { world_with_layout(vm::LAYOUT_1) };
    let n = w.s.hash_map.num_active();
    let bytes = w.s.serialize();
    let weight = w.s.total_weight();
    let offset = w.s.maximum_error();
    // ---- spec decoder (C12)
    assert!(bytes[1] == 1 && bytes[2] == 10, "serial version / family id");
    assert!(bytes[3] == 3 && bytes[4] == 3, "lg_max / lg_cur map size");
    if weight == 0 {
        assert!(bytes.len() == 8 && bytes[0] == 1 && bytes[5] & 4 != 0, "empty image");
    } else {
        assert!(bytes[0] == 4 && bytes[5] & 4 == 0, "non-empty preamble (a sketch that has seen weight is not empty)");
        assert!(bytes.len() == 32 + 16 * n, "image length");
        assert!(rd_u32(&bytes, 8) as usize == n, "active item count");
        assert!(rd_u64(&bytes, 16) == weight, "stream weight field");
        assert!(rd_u64(&bytes, 24) == offset, "offset field");
        let mut i = 0;
        while i < n {
            let cnt = rd_u64(&bytes, 32 + 8 * i);
            let item = rd_u64(&bytes, 32 + 8 * n + 8 * i);
            assert!((item as usize) < D && vm::model_get(&w.s.hash_map, item) == cnt, "(item, count) pair not from the sketch");
            i += 1;
        }
    }
    // ---- round trip (C11)
    let r = FrequentItemsSketch::<u64>::deserialize(&bytes);
    let g = crate::verif_kani_common::expect_ok(r, "own image rejected");
    assert!(g.total_weight() == weight, "total weight lost in round trip");
    assert!(g.maximum_error() == offset, "maximum error lost in round trip");
    assert!(g.num_active_items() == n);
    assert!(g.lg_max_map_size() == 3 && g.lg_cur_map_size() == 3);
    let x: u64 = kani::any();
    kani::assume((x as usize) < D);
    assert!(g.lower_bound(&x) == w.s.lower_bound(&x) && g.upper_bound(&x) == w.s.upper_bound(&x), "bounds differ after round trip");
    kani::cover!(n == 0 && weight > 0);
    kani::cover!(n == 1);
    kani::cover!(weight == 0);
    core::mem::forget((w, g, bytes));
}

//@ props: C14
//@ tier: quick
//@ timeout: 2400
//@ functions: frequencies::FrequentItemsSketch::deserialize
//@ functions: frequencies::FrequentItemsSketch::deserialize_inner
//@ functions: frequencies::FrequentItemsSketch::with_lg_map_sizes
//@ bounds: every byte string of length 0..=56 (u64 items); map sizes above 2^4 are cut after the header checks (assumed away) to keep the table small
//@ desc: deserialize returns Ok or Err without panic for every byte string; an Ok value can be queried, updated, merged and re-serialized
#[kani::proof]
#[kani::unwind(20)]
#[kani::stub(alloc::fmt::format, stub_format)]
fn c14_frequencies_any_bytes() {
    let img: [u8; 56] = kani::any();
    let len: usize = kani::any();
    kani::assume(len <= 56);
    // lg_cur (byte 4) small so that the map allocation stays small; lg_max (byte 3) is unconstrained
    kani::assume(img[4] <= 4);
    let r = FrequentItemsSketch::<u64>::deserialize(&img[..len]);
    kani::cover!(r.is_ok());
    kani::cover!(r.is_err());
    if let Ok(g) = r {
        let _ = g.total_weight();
        let _ = g.maximum_error();
        let _ = g.estimate(&1u64);
        kani::cover!(g.num_active_items() == 1);
        core::mem::forget(g);
    } else {
        core::mem::forget(r);
    }
}

//@ props: C07 C17 C18
//@ tier: quick
//@ timeout: 300
//@ functions: frequencies::FrequentItemsSketch::maximum_map_capacity
//@ functions: frequencies::FrequentItemsSketch::epsilon_for_lg
//@ functions: frequencies::FrequentItemsSketch::with_lg_map_sizes
//@ bounds: every lg_max_map_size in 3..=11 (map sizes 8..=2048); sample size and purge amortisation arithmetic
//@ desc: maximum_map_capacity = 3/4 of the map size (so a purge always finds an empty slot: capacity + 1 < size); the purge sample is min(1024, capacity) and at least 3/8 of the map size of the sampled counters are >= the median, so maximum_error <= total_weight * 8/(3*M) <= epsilon * total_weight with epsilon = 3.5/M
#[kani::proof]
fn c07_capacity_and_epsilon_arithmetic() {
    let lg: u8 = kani::any();
    kani::assume(lg >= 3 && lg <= 11);
    let m: usize = 1usize << lg;
    let cap = m * LOAD_FACTOR_NUMERATOR / LOAD_FACTOR_DENOMINATOR;
    assert!(cap == 3 * m / 4);
    assert!(cap + 1 < m, "a map holding capacity + 1 items would be full");
    let sample = if SAMPLE_SIZE < cap { SAMPLE_SIZE } else { cap };
    let limit = sample;
    let mid = limit / 2;
    let at_least = limit - mid; // sampled counters >= median
    if lg <= 10 {
        assert!(8 * at_least >= 3 * m, "fewer than 3M/8 counters lose a full median per purge");
    }
    let eps = FrequentItemsSketch::<u64>::epsilon_for_lg(lg);
    assert!(eps == 3.5 / (m as f64));
    assert!(8.0 / 3.0 < EPSILON_FACTOR);
    kani::cover!(lg == 10);
}
