//@@ attach: frequencies/sketch.rs
//@@ needs: frequencies_map.rs
// FrequentItemsSketch<u64> with max map size 8: bracket lb <= true <= ub for EVERY key of the domain
// (ghost true counts), exact total weight, error bound, capacity, merge, serialization.
#![allow(static_mut_refs)]
use super::*;
use crate::frequencies::reverse_purge_item_hash_map::ReversePurgeItemHashMap;
use crate::frequencies::reverse_purge_item_hash_map::verif_kani_frequencies_map as vm;
use crate::frequencies::reverse_purge_item_hash_map::verif_kani_frequencies_map::verif_hash_item;
use crate::verif_kani_common::stub_format;

const D: usize = vm::D;

/// Arbitrary sketch with lg_max_map_size = 3 (map size 8, capacity 6) satisfying the sketch invariant,
/// together with ghost true counts t[x] for every key of the domain.
struct World {
    s: FrequentItemsSketch<u64>,
    t: [u64; D],
}

fn sum_values(s: &FrequentItemsSketch<u64>) -> u64 {
    let mut sum = 0u64;
    let mut x = 0;
    while x < D {
        sum += vm::model_get(&s.hash_map, x as u64);
        x += 1;
    }
    sum
}

/// bracket for every key; exact weight; amortisation invariant 3*offset + sum(counters) <= N
/// (3 = limit - mid for sample size 6), which gives maximum_error <= N/3 <= epsilon*N (epsilon = 3.5/8).
fn sketch_invariant(w: &World) -> bool {
    let s = &w.s;
    if !vm::map_invariant(&s.hash_map) {
        return false;
    }
    if s.lg_max_map_size != 3 || s.cur_map_cap != 6 || s.sample_size != 6 {
        return false;
    }
    if s.hash_map.num_active() > 6 {
        return false;
    }
    let mut total: u64 = 0;
    let mut x = 0;
    while x < D {
        let lb = vm::model_get(&s.hash_map, x as u64);
        if !(lb <= w.t[x] && w.t[x] <= lb + s.offset) {
            return false;
        }
        total += w.t[x];
        x += 1;
    }
    if total != s.stream_weight {
        return false;
    }
    3 * s.offset + sum_values(s) <= s.stream_weight
}

fn any_world() -> World {
    world_from(vm::any_map())
}

fn world_with_layout(layout: [u16; 8]) -> World {
    world_from(vm::map_with_layout(layout))
}

fn world_from(m: ReversePurgeItemHashMap<u64>) -> World {
    kani::assume(m.num_active() <= 6);
    let offset: u64 = kani::any();
    kani::assume(offset < (1u64 << 58));
    let mut t = [0u64; D];
    let mut total = 0u64;
    let mut x = 0;
    while x < D {
        t[x] = kani::any();
        kani::assume(t[x] < (1u64 << 60));
        total += t[x];
        x += 1;
    }
    let w = World {
        s: FrequentItemsSketch {
            lg_max_map_size: 3,
            cur_map_cap: 6,
            offset,
            stream_weight: total,
            sample_size: 6,
            hash_map: m,
        },
        t,
    };
    kani::assume(sketch_invariant(&w));
    w
}

fn check_all(w: &World) {
    let s = &w.s;
    // the public bounds are checked for an arbitrary key of the domain (one symbolic key instead of a loop
    // over all keys: each accessor probes the table, and eight probes per accessor exhaust memory)
    let k: u64 = kani::any();
    kani::assume((k as usize) < D);
    let x = k as usize;
    let lb = s.lower_bound(&k);
    let ub = s.upper_bound(&k);
    assert!(lb == vm::model_get(&s.hash_map, k), "lower_bound is not the key's counter");
    assert!(lb <= w.t[x], "lower_bound exceeds the true count");
    assert!(w.t[x] <= ub, "upper_bound is below the true count");
    assert!(ub - lb <= s.maximum_error(), "ub - lb exceeds maximum_error");
    let e = s.estimate(&k);
    assert!(e == 0 || (lb <= e && e <= ub));
    assert!(s.num_active_items() <= s.maximum_map_capacity(), "more active items than the maximum map capacity");
    assert!(3 * s.maximum_error() <= s.total_weight(), "maximum_error exceeds total_weight/3 (< epsilon*N)");
}

fn update_case(layout: [u16; 8]) {
    vm::init_home();
    let mut w = world_with_layout(layout);
    let y: u64 = kani::any();
    kani::assume((y as usize) < D);
    let c: u64 = kani::any();
    kani::assume(c >= 1 && c < (1u64 << 58));
    let n0 = w.s.total_weight();
    let off0 = w.s.offset;
    w.s.update_with_count(y, c);
    w.t[y as usize] += c;
    assert!(w.s.total_weight() == n0 + c, "total_weight is not the exact stream weight");
    check_all(&w);
    assert!(sketch_invariant(&w), "sketch invariant not re-established by update");
    kani::cover!(w.s.offset > off0 || layout[3] == 0 && layout[0] == 0); // the purging step is inside (6-key layouts)
    kani::cover!(w.s.offset == off0);
    core::mem::forget(w);
}

/// cut: with at most 4 keys after the step the sketch cannot purge; reaching purge fails the harness
fn cut_purge<T: Eq + Hash>(_m: &mut ReversePurgeItemHashMap<T>, _sample: usize) -> u64 {
    panic!("verif cut: purge reached although the map is far from its capacity");
}

macro_rules! update_layout_nopurge {
    ($name:ident, $layout:expr) => {
        #[kani::proof]
        #[kani::unwind(10)]
        #[kani::stub(crate::frequencies::reverse_purge_item_hash_map::hash_item, verif_hash_item)]
        #[kani::stub(ReversePurgeItemHashMap::purge, cut_purge)]
        fn $name() {
            update_case($layout);
        }
    };
}

macro_rules! update_layout {
    ($name:ident, $layout:expr) => {
        #[kani::proof]
        #[kani::unwind(10)]
        #[kani::stub(crate::frequencies::reverse_purge_item_hash_map::hash_item, verif_hash_item)]
        #[kani::stub(<[u64]>::select_nth_unstable, crate::verif_kani_common::model_select_nth)]
        fn $name() {
            update_case($layout);
        }
    };
}

//@ family: update_layout
//@ props: C07 C17 C18
//@ tier: thorough
//@ timeout: 2400
//@ functions: frequencies::FrequentItemsSketch::update_with_count
//@ functions: frequencies::FrequentItemsSketch::maybe_resize_or_purge
//@ functions: frequencies::FrequentItemsSketch::lower_bound
//@ functions: frequencies::FrequentItemsSketch::upper_bound
//@ functions: frequencies::FrequentItemsSketch::estimate
//@ functions: frequencies::FrequentItemsSketch::maximum_error
//@ functions: frequencies::ReversePurgeItemHashMap::purge
//@ unwind: 10
//@ stubs: hash_item -> symbolic home table; select_nth_unstable -> reference model
//@ bounds: max map size 8 (capacity 6); table in the occupancy layout of the instance (6 keys flat / in collision chains / wrap-around: the update of a 7th key purges; 3 keys: no purge), keys, home slots, counters, ghost true counts (< 2^60), offset (< 2^58) and the update weight (1..2^58) symbolic; key domain 0..8
//@ assumes: sketch invariant (probing invariant; lb(x) <= t(x) <= lb(x)+offset for every key; stream_weight = sum of true counts; 3*offset + sum(counters) <= stream_weight; num_active <= 6) - inductive: this harness re-establishes it, new() satisfies it
//@ replay_stub: frequencies/reverse_purge_item_hash_map.rs | fn hash_item<T: Hash>(item: &T) -> u64 { | return self::verif_kani_frequencies_map::verif_hash_item(item);
//@ desc: one update_with_count(y, w) (including the step that purges): the bracket holds afterwards for every key of the domain against t + w[x=y], total_weight exact, ub-lb <= maximum_error <= N/3, num_active <= capacity, invariant re-established, no panic
update_layout!(c07_update_step_6_flat, vm::LAYOUT_6_FLAT);
update_layout!(c07_update_step_6_clusters, vm::LAYOUT_6_CLUSTERS);
update_layout!(c07_update_step_6_wrap, vm::LAYOUT_6_WRAP);
update_layout_nopurge!(c07_update_step_3, vm::LAYOUT_3);
//@ endfamily: x

//@ props: C07
//@ tier: quick
//@ timeout: 900
//@ functions: frequencies::FrequentItemsSketch::new
//@ functions: frequencies::FrequentItemsSketch::with_lg_map_sizes
//@ bounds: new(8)
//@ desc: base case of the induction: a fresh sketch of max map size 8 satisfies the sketch invariant with all true counts 0
#[kani::proof]
#[kani::unwind(10)]
#[kani::stub(crate::frequencies::reverse_purge_item_hash_map::hash_item, verif_hash_item)]
fn c07_new_satisfies_invariant() {
    vm::init_home();
    let s: FrequentItemsSketch<u64> = FrequentItemsSketch::new(8);
    let w = World { s, t: [0; D] };
    assert!(sketch_invariant(&w));
    assert!(w.s.is_empty() && w.s.total_weight() == 0 && w.s.maximum_error() == 0);
    assert!(w.s.maximum_map_capacity() == 6 && w.s.current_map_capacity() == 6);
    kani::cover!(true);
    core::mem::forget(w);
}

fn merge_case(la: [u16; 8], lb: [u16; 8]) {
    vm::init_home();
    let mut a = world_with_layout(la);
    let b = world_with_layout(lb);
    let na = a.s.total_weight();
    let nb = b.s.total_weight();
    a.s.merge(&b.s);
    let mut x = 0;
    while x < D {
        a.t[x] += b.t[x];
        x += 1;
    }
    assert!(a.s.total_weight() == na + nb, "merged total_weight is not the sum of the operands");
    check_all(&a);
    assert!(sketch_invariant(&a), "sketch invariant not re-established by merge");
    assert!(b.s.total_weight() == nb);
    kani::cover!(nb > 0 && b.s.offset > 0);
    core::mem::forget((a, b));
}

macro_rules! merge_layout_nopurge {
    ($name:ident, $la:expr, $lb:expr) => {
        #[kani::proof]
        #[kani::unwind(10)]
        #[kani::stub(crate::frequencies::reverse_purge_item_hash_map::hash_item, verif_hash_item)]
        #[kani::stub(ReversePurgeItemHashMap::purge, cut_purge)]
        fn $name() {
            merge_case($la, $lb);
        }
    };
}

macro_rules! merge_layout {
    ($name:ident, $la:expr, $lb:expr) => {
        #[kani::proof]
        #[kani::unwind(10)]
        #[kani::stub(crate::frequencies::reverse_purge_item_hash_map::hash_item, verif_hash_item)]
        #[kani::stub(<[u64]>::select_nth_unstable, crate::verif_kani_common::model_select_nth)]
        fn $name() {
            merge_case($la, $lb);
        }
    };
}

//@ family: merge_layout
//@ props: C07 C17 C18
//@ tier: thorough
//@ timeout: 3000
//@ functions: frequencies::FrequentItemsSketch::merge
//@ functions: frequencies::FrequentItemsSketch::update_with_count
//@ functions: frequencies::ReversePurgeItemIter::next
//@ unwind: 10
//@ stubs: hash_item -> symbolic home table; select_nth_unstable -> reference model
//@ bounds: self and other are size-8 sketches in the occupancy layouts of the instance (self: 3 keys; other: no active key - the state an all-equal purge leaves, with stream_weight > 0 and offset > 0); all keys, home slots, counters, offsets and ghost true counts symbolic
//@ assumes: both operands satisfy the sketch invariant with their own ghost true counts (same hash function)
//@ replay_stub: frequencies/reverse_purge_item_hash_map.rs | fn hash_item<T: Hash>(item: &T) -> u64 { | return self::verif_kani_frequencies_map::verif_hash_item(item);
//@ desc: merge(other): for every key lb <= t_self + t_other <= ub, total_weight = sum of both, ub-lb <= maximum_error <= N/3, capacity respected, other unchanged
merge_layout_nopurge!(c07_merge_step_3_purged, vm::LAYOUT_3, vm::LAYOUT_0);
// (instances with a one-key argument were removed: with keys named in slot order the key 0 of both operands
// would need two different home slots - the harness was vacuous, which its cover reported; the one-key
// argument is covered by the abstract-map family c07_sketch_merge_one_key)
//@ endfamily: x

//@ props: C07
//@ tier: thorough
//@ timeout: 1500
//@ functions: frequencies::FrequentItemsSketch::frequent_items
//@ functions: frequencies::FrequentItemsSketch::frequent_items_with_threshold
//@ functions: frequencies::ReversePurgeItemIter::next
//@ bounds: a size-8 sketch with 3 active items (two of them in a collision chain), every threshold, both error types
//@ assumes: sketch invariant (bracket for every key)
//@ replay_stub: frequencies/reverse_purge_item_hash_map.rs | fn hash_item<T: Hash>(item: &T) -> u64 { | return self::verif_kani_frequencies_map::verif_hash_item(item);
//@ desc: NoFalsePositives rows all have true count > max(threshold, offset); under NoFalseNegatives every tracked key whose true count exceeds the threshold is returned (untracked keys have t <= offset <= threshold); rows carry the key's bounds, each active key at most once
#[kani::proof]
#[kani::unwind(10)]
#[kani::stub(crate::frequencies::reverse_purge_item_hash_map::hash_item, verif_hash_item)]
fn c07_frequent_items() {
    vm::init_home();
    let w = world_with_layout(vm::LAYOUT_3);
    let thr: u64 = kani::any();
    let eff = if thr > w.s.offset { thr } else { w.s.offset };
    let nfp = w.s.frequent_items_with_threshold(ErrorType::NoFalsePositives, thr);
    let nfn = w.s.frequent_items_with_threshold(ErrorType::NoFalseNegatives, thr);
    assert!(nfp.len() <= 3 && nfn.len() <= 3);
    let mut i = 0;
    while i < nfp.len() {
        let r = &nfp[i];
        let k = *r.item();
        assert!((k as usize) < D);
        assert!(w.t[k as usize] > eff, "NoFalsePositives returned an item whose true count is not above the threshold");
        assert!(r.lower_bound() == w.s.lower_bound(&k) && r.upper_bound() == w.s.upper_bound(&k));
        i += 1;
    }
    let x: u64 = kani::any();
    kani::assume((x as usize) < D);
    if w.t[x as usize] > eff {
        let mut found = 0;
        let mut i = 0;
        while i < nfn.len() {
            if *nfn[i].item() == x {
                found += 1;
            }
            i += 1;
        }
        assert!(found == 1, "NoFalseNegatives missed an item whose true count exceeds the threshold");
    }
    // sorted by estimate, descending
    if nfn.len() >= 2 {
        assert!(nfn[0].estimate() >= nfn[1].estimate());
    }
    kani::cover!(nfp.len() == 1 && nfn.len() == 3);
    kani::cover!(nfp.len() == 0);
    core::mem::forget((w, nfp, nfn));
}

// ---------------------------------------------------------------------------------------------
// serialization (u64 items): C11 round trip, C12 layout, C14 arbitrary bytes
// ---------------------------------------------------------------------------------------------

fn rd_u32(b: &[u8], o: usize) -> u32 {
    (b[o] as u32) | ((b[o + 1] as u32) << 8) | ((b[o + 2] as u32) << 16) | ((b[o + 3] as u32) << 24)
}
fn rd_u64(b: &[u8], o: usize) -> u64 {
    (rd_u32(b, o) as u64) | ((rd_u32(b, o + 4) as u64) << 32)
}

/// loop-free little-endian store
fn put_le(b: &mut [u8], o: usize, v: u64, n: usize) {
    b[o] = v as u8;
    if n >= 2 {
        b[o + 1] = (v >> 8) as u8;
    }
    if n >= 4 {
        b[o + 2] = (v >> 16) as u8;
        b[o + 3] = (v >> 24) as u8;
    }
    if n >= 8 {
        b[o + 4] = (v >> 32) as u8;
        b[o + 5] = (v >> 40) as u8;
        b[o + 6] = (v >> 48) as u8;
        b[o + 7] = (v >> 56) as u8;
    }
}

/// Round trip against a SPEC ENCODER (Frequent Items layout of datasketches-java/cpp, u64 items) in an
/// exact-size array with literal structure. SHAPE: 0 = never updated (empty form), 1 = every counter purged
/// (no active item but stream weight and offset), 2 = one active item.
fn fi_roundtrip_case<const SHAPE: u8, const LEN: usize>() {
    vm::init_home();
    let map = if SHAPE == 2 { vm::map_with_layout(vm::LAYOUT_1) } else { vm::map_with_layout(vm::LAYOUT_0) };
    let n: usize = if SHAPE == 2 { 1 } else { 0 };
    let offset: u64 = if SHAPE == 0 { 0 } else { kani::any() };
    let weight: u64 = if SHAPE == 0 { 0 } else { kani::any() };
    kani::assume(offset < (1u64 << 58) && weight < (1u64 << 62));
    let (item, count) = if SHAPE == 2 { vm::slot_of(&map, 3) } else { (0, 0) };
    if SHAPE != 0 {
        kani::assume(weight >= 1 && weight >= count && 3 * offset <= weight);
    }
    let s = FrequentItemsSketch { lg_max_map_size: 3, cur_map_cap: 6, offset, stream_weight: weight, sample_size: 6, hash_map: map };
    let mut img = [0u8; LEN];
    assert!(LEN == if SHAPE == 0 { 8 } else { 32 + 16 * n });
    img[0] = if SHAPE == 0 { 1 } else { 4 }; // preamble longs
    img[1] = 1; // serial version
    img[2] = 10; // family id
    img[3] = 3; // lg_max_map_size
    img[4] = 3; // lg_cur_map_size
    img[5] = if SHAPE == 0 { 5 } else { 0 }; // flags: empty (bits 0 and 2, as C++ writes it; Java tests bit 2) - a sketch that has seen weight is not empty
    if SHAPE != 0 {
        put_le(&mut img, 8, n as u64, 4); // active items (+ 4 unused bytes)
        put_le(&mut img, 16, weight, 8);
        put_le(&mut img, 24, offset, 8);
        if SHAPE == 2 {
            put_le(&mut img, 32, count, 8); // counts first ...
            put_le(&mut img, 40, item, 8); // ... then items
        }
    }
    let bytes = s.serialize();
    assert!(bytes.len() == LEN, "image length is not 8 or 32 + 16 * items");
    macro_rules! same_word {
        ($($i:expr),*) => { $( if 8 * $i < LEN {
            assert!(rd_u64(&bytes, 8 * $i) == rd_u64(&img, 8 * $i), "serialized bytes differ from the documented layout");
        } )* };
    }
    same_word!(0, 1, 2, 3, 4, 5);
    // ---- round trip (C11)
    let r = FrequentItemsSketch::<u64>::deserialize(&img);
    let g = crate::verif_kani_common::expect_ok(r, "own image rejected");
    assert!(g.total_weight() == weight, "total weight lost in round trip");
    assert!(g.maximum_error() == offset, "maximum error lost in round trip");
    assert!(g.num_active_items() == n);
    assert!(g.lg_max_map_size() == 3 && g.lg_cur_map_size() == 3);
    let x: u64 = kani::any();
    kani::assume((x as usize) < D);
    assert!(g.lower_bound(&x) == s.lower_bound(&x) && g.upper_bound(&x) == s.upper_bound(&x), "bounds differ after round trip");
    kani::cover!(true);
    core::mem::forget((s, g, bytes));
}

macro_rules! fi_roundtrip {
    ($name:ident, $shape:expr, $len:expr) => {
        #[kani::proof]
        #[kani::unwind(10)]
        #[kani::stub(crate::frequencies::reverse_purge_item_hash_map::hash_item, verif_hash_item)]
        #[kani::stub(alloc::fmt::format, stub_format)]
        #[kani::stub(<[u64]>::select_nth_unstable, crate::verif_kani_common::model_select_nth)]
        fn $name() {
            fi_roundtrip_case::<$shape, $len>();
        }
    };
}

//@ family: fi_roundtrip
//@ props: C11 C12 C07
//@ tier: thorough
//@ timeout: 1800
//@ functions: frequencies::FrequentItemsSketch::serialize
//@ functions: frequencies::FrequentItemsSketch::serialize_inner
//@ functions: frequencies::FrequentItemsSketch::deserialize
//@ functions: frequencies::FrequentItemsSketch::deserialize_inner
//@ unwind: 10
//@ stubs: hash_item -> symbolic home table; alloc::fmt::format -> empty string; select_nth_unstable -> reference model
//@ bounds: size-8 sketches (u64 items) of the instance's shape: never updated; every counter purged (no active item, stream_weight > 0, offset symbolic); one active item with symbolic count, offset and stream weight
//@ assumes: sketch invariant (valid probing table)
//@ replay_stub: frequencies/reverse_purge_item_hash_map.rs | fn hash_item<T: Hash>(item: &T) -> u64 { | return self::verif_kani_frequencies_map::verif_hash_item(item);
//@ desc: serialize() equals, byte for byte, the image a spec encoder written from the Frequent Items layout produces (preLongs 1/4, serVer 1, family 10, lgMax @3, lgCur @4, flags @5 with the empty bits (0 and 2) only for a sketch that has seen no weight, activeItems u32 @8, streamWeight u64 @16, offset u64 @24, then counts, then items); deserializing it gives the same total weight, maximum error and per-item bounds for every key
fi_roundtrip!(c11_frequencies_roundtrip_empty, 0, 8); //@ tier: quick
fi_roundtrip!(c11_frequencies_roundtrip_purged, 1, 32); //@ tier: quick
fi_roundtrip!(c11_frequencies_roundtrip_one_item, 2, 48);
//@ endfamily: x

//@ props: C14
//@ tier: thorough
//@ timeout: 900
//@ functions: frequencies::FrequentItemsSketch::deserialize_inner
//@ stubs: FrequentItemsSketch::with_lg_map_sizes -> recorder (the map allocation is configuration-sized); alloc::fmt::format -> empty string
//@ bounds: every 32-byte string (the whole preamble symbolic, no items) and its 8- and 7-byte prefixes
//@ desc: the preamble checks never panic: family 10, serVer 1, lg_cur <= lg_max <= 30, preLongs 1 exactly for the empty flag and 4 otherwise; a sketch is only constructed with map sizes that passed them
#[kani::proof]
#[kani::unwind(10)]
#[kani::stub(alloc::fmt::format, stub_format)]
#[kani::stub(FrequentItemsSketch::with_lg_map_sizes, rec_with_lg_map_sizes)]
#[kani::stub(alloc::vec::Vec::with_capacity, crate::verif_kani_common::stub_with_capacity)]
fn c14_frequencies_header_any_bytes() {
    let mut img: [u8; 32] = kani::any();
    let len: usize = 32;
    // (no items: the active-item count is the literal 0 - a larger count fails on the missing payload, which
    // c14_frequencies_any_bytes covers)
    img[8] = 0;
    img[9] = 0;
    img[10] = 0;
    img[11] = 0;
    unsafe {
        MAP_SIZES = (255, 255);
    }
    let r = FrequentItemsSketch::<u64>::deserialize(&img[..len]);
    let r8 = FrequentItemsSketch::<u64>::deserialize(&img[..8]);
    let r7 = FrequentItemsSketch::<u64>::deserialize(&img[..7]);
    assert!(r7.is_err(), "a 7-byte image was accepted");
    core::mem::forget((r8, r7));
    let (lg_max, lg_cur) = unsafe { MAP_SIZES };
    if r.is_ok() {
        assert!(lg_max != 255 && lg_cur <= lg_max && lg_max <= 30, "a sketch was built with map sizes that are not lg_cur <= lg_max <= 30");
        assert!(img[2] == 10 && img[1] == 1, "family / serial version not checked");
        assert!(lg_max == img[3] && lg_cur == img[4]);
    }
    kani::cover!(r.is_ok());
    kani::cover!(r.is_err() && len >= 8);
    core::mem::forget(r);
}

static mut MAP_SIZES: (u8, u8) = (255, 255);
fn rec_with_lg_map_sizes<T: Eq + Hash>(lg_max: u8, lg_cur: u8) -> FrequentItemsSketch<T> {
    unsafe {
        MAP_SIZES = (lg_max, lg_cur);
    }
    FrequentItemsSketch { lg_max_map_size: 3, cur_map_cap: 6, offset: 0, stream_weight: 0, sample_size: 6, hash_map: ReversePurgeItemHashMap::new(8) }
}

/// stand-in for `hash_item` in the parser harness: an arbitrary value per call (no-panic does not depend
/// on which slot an item hashes to; a single item is inserted into an empty map)
fn any_hash_item<T: Hash>(_item: &T) -> u64 {
    kani::any()
}

//@ props: C14
//@ tier: thorough
//@ timeout: 1200
//@ functions: frequencies::FrequentItemsSketch::deserialize
//@ functions: frequencies::FrequentItemsSketch::deserialize_inner
//@ functions: frequencies::FrequentItemsSketch::with_lg_map_sizes
//@ functions: frequencies::FrequentItemsSketch::update_with_count
//@ stubs: hash_item -> arbitrary value per call; alloc::fmt::format -> empty string
//@ bounds: every byte string of exactly 56 bytes and its 47-byte prefix (u64 items: header, up to one counter and one item, or truncated forms of larger counts) with the map-size bytes the literals lg_max = lg_cur = 3 (the minimum 8-slot map) and the active-item count the literal 1; every other field (preamble, version, family, flags, stream weight, offset, counter, item) symbolic
//@ desc: deserialize returns Ok or Err without panic for every byte string; an Ok value can be queried
#[kani::proof]
#[kani::unwind(12)]
#[kani::stub(alloc::fmt::format, stub_format)]
#[kani::stub(crate::frequencies::reverse_purge_item_hash_map::hash_item, any_hash_item)]
#[kani::stub(alloc::vec::Vec::with_capacity, crate::verif_kani_common::stub_with_capacity)]
fn c14_frequencies_any_bytes() {
    let mut img: [u8; 56] = kani::any();
    // (concrete length: a slice of symbolic length defeats constant propagation over the literal fields;
    // truncated images: c14_frequencies_header_any_bytes and the second call below)
    let len: usize = 56;
    // map-size fields as literals (lg_max = lg_cur = 3, the minimum 8-slot map): the map allocation is then
    // concrete; every other byte and the length stay symbolic. Their validation (lg_cur <= lg_max <= 30) is
    // c14_frequencies_header_any_bytes.
    img[3] = 3;
    img[4] = 3;
    // the active-item count as a literal too (1: the buffer holds exactly one counter and one item): the
    // count-driven loops - each iteration reads, pushes and finally replays an update with a purge behind
    // it - are then unrolled once instead of up to the unwinding bound
    img[8] = 1;
    img[9] = 0;
    img[10] = 0;
    img[11] = 0;
    let r = FrequentItemsSketch::<u64>::deserialize(&img[..len]);
    let short = FrequentItemsSketch::<u64>::deserialize(&img[..47]);
    core::mem::forget(short);
    kani::cover!(r.is_ok());
    kani::cover!(r.is_err());
    if let Ok(g) = r {
        let _ = g.total_weight();
        let _ = g.maximum_error();
        kani::cover!(g.num_active_items() == 1);
        core::mem::forget(g);
    } else {
        core::mem::forget(r);
    }
}

//@ props: C07 C17 C18
//@ tier: quick
//@ timeout: 300
//@ functions: frequencies::FrequentItemsSketch::maximum_map_capacity
//@ functions: frequencies::FrequentItemsSketch::epsilon_for_lg
//@ functions: frequencies::FrequentItemsSketch::with_lg_map_sizes
//@ bounds: every lg_max_map_size in 3..=11 (map sizes 8..=2048); sample size and purge amortisation arithmetic
//@ desc: maximum_map_capacity = 3/4 of the map size (so a purge always finds an empty slot: capacity + 1 < size); the purge sample is min(1024, capacity) and at least 3/8 of the map size of the sampled counters are >= the median, so maximum_error <= total_weight * 8/(3*M) <= epsilon * total_weight with epsilon = 3.5/M
#[kani::proof]
fn c07_capacity_and_epsilon_arithmetic() {
    let lg: u8 = kani::any();
    kani::assume(lg >= 3 && lg <= 11);
    let m: usize = 1usize << lg;
    let cap = m * LOAD_FACTOR_NUMERATOR / LOAD_FACTOR_DENOMINATOR;
    assert!(cap == 3 * m / 4);
    assert!(cap + 1 < m, "a map holding capacity + 1 items would be full");
    let sample = if SAMPLE_SIZE < cap { SAMPLE_SIZE } else { cap };
    let limit = sample;
    let mid = limit / 2;
    let at_least = limit - mid; // sampled counters >= median
    if lg <= 10 {
        assert!(8 * at_least >= 3 * m, "fewer than 3M/8 counters lose a full median per purge");
    }
    let eps = FrequentItemsSketch::<u64>::epsilon_for_lg(lg);
    assert!(eps == 3.5 / (m as f64));
    assert!(8.0 / 3.0 < EPSILON_FACTOR);
    kani::cover!(lg == 10);
}

// ---------------------------------------------------------------------------------------------
// Sketch-level logic over the ABSTRACT map (compositional): the map operations are replaced by their
// contracts (frequencies_map.rs, established for the real code by c07_map_adjust_step / c07_map_purge_*),
// so that every sketch state - all 2^8 occupancy patterns, all counters - is covered at once.
// ---------------------------------------------------------------------------------------------
use crate::frequencies::reverse_purge_item_hash_map::verif_kani_frequencies_map::{
    abs_adjust_or_put_value, abs_get, abs_num_active, abs_purge,
};

fn abs_counters() -> [u64; D] {
    unsafe { vm::ABS }
}

/// arbitrary abstract sketch of max map size 8 + ghost true counts satisfying the sketch invariant
/// magnitude bound of counters / offset / weights in the abstract harnesses. The arithmetic of the sketch
/// logic is overflow-free 64-bit addition and saturating subtraction, uniform in magnitude; with 2^60 the
/// SAT queries (sums of 8 counters under a counting constraint) did not finish in 10 min.
const ABS_BOUND: u64 = 1 << 16;

fn any_abs_world() -> (FrequentItemsSketch<u64>, [u64; D]) {
    any_abs_world_opt(false)
}

fn any_abs_world_opt(with_amortisation: bool) -> (FrequentItemsSketch<u64>, [u64; D]) {
    let mut t = [0u64; D];
    let mut total = 0u64;
    let mut sum = 0u64;
    let mut active = 0;
    let offset: u64 = kani::any();
    kani::assume(offset < ABS_BOUND);
    let mut x = 0;
    while x < D {
        let c: u64 = kani::any();
        kani::assume(c < ABS_BOUND);
        unsafe {
            vm::ABS[x] = c;
        }
        if c > 0 {
            active += 1;
        }
        t[x] = kani::any();
        kani::assume(t[x] < 2 * ABS_BOUND);
        kani::assume(c <= t[x] && t[x] <= c + offset);
        total += t[x];
        sum += c;
        x += 1;
    }
    kani::assume(active <= 6);
    if with_amortisation {
        kani::assume(3 * offset + sum <= total);
    }
    let s = FrequentItemsSketch {
        lg_max_map_size: 3,
        cur_map_cap: 6,
        offset,
        stream_weight: total,
        sample_size: 6,
        hash_map: vm::abs_map(),
    };
    (s, t)
}

fn check_abs_invariant(s: &FrequentItemsSketch<u64>, t: &[u64; D]) {
    let a = abs_counters();
    let mut total = 0u64;
    let mut sum = 0u64;
    let mut active = 0;
    let mut x = 0;
    while x < D {
        let k = x as u64;
        assert!(s.lower_bound(&k) == a[x], "lower_bound is not the key's counter");
        assert!(s.upper_bound(&k) == a[x] + s.maximum_error(), "upper_bound is not counter + maximum_error");
        assert!(a[x] <= t[x], "lower_bound exceeds the true count");
        assert!(t[x] <= a[x] + s.maximum_error(), "upper_bound is below the true count");
        let e = s.estimate(&k);
        assert!(e == if a[x] > 0 { a[x] + s.maximum_error() } else { 0 }, "estimate is not counter + offset for tracked items / 0 otherwise");
        total += t[x];
        sum += a[x];
        if a[x] > 0 {
            active += 1;
        }
        x += 1;
    }
    assert!(s.total_weight() == total, "total_weight is not the exact stream weight");
    assert!(s.num_active_items() == active && active <= s.maximum_map_capacity(), "more active items than the maximum map capacity");
    let _ = sum;
    assert!(s.is_empty() == (active == 0));
}

fn check_amortisation(s: &FrequentItemsSketch<u64>) {
    let a = abs_counters();
    let mut sum = 0u64;
    let mut x = 0;
    while x < D {
        sum += a[x];
        x += 1;
    }
    assert!(3 * s.maximum_error() + sum <= s.total_weight(), "amortisation invariant broken: maximum_error may exceed N/3 (> epsilon*N)");
}

//@ props: C07 C17 C18
//@ tier: quick
//@ timeout: 900
//@ functions: frequencies::FrequentItemsSketch::update_with_count
//@ functions: frequencies::FrequentItemsSketch::update
//@ functions: frequencies::FrequentItemsSketch::maybe_resize_or_purge
//@ functions: frequencies::FrequentItemsSketch::lower_bound
//@ functions: frequencies::FrequentItemsSketch::upper_bound
//@ functions: frequencies::FrequentItemsSketch::estimate
//@ functions: frequencies::FrequentItemsSketch::maximum_error
//@ functions: frequencies::FrequentItemsSketch::total_weight
//@ functions: frequencies::FrequentItemsSketch::num_active_items
//@ functions: frequencies::FrequentItemsSketch::is_empty
//@ stubs: ReversePurgeItemHashMap::{adjust_or_put_value, get, num_active, purge} -> their contracts over an abstract counter array (the contracts are what c07_map_adjust_step / c07_map_purge_* establish for the real map code)
//@ bounds: max map size 8 (capacity 6, sample size 6): EVERY abstract state - any set of <= 6 tracked keys out of a domain of 8, any counters, offset and weights < 2^16 (ghost true counts < 2^17) - and any update (key, weight), including the updates that purge
//@ assumes: sketch invariant over the abstract map: counter(x) <= t(x) <= counter(x) + offset for every key, stream_weight = sum of true counts, 3*offset + sum(counters) <= stream_weight, <= 6 tracked keys - inductive (re-established here; new() satisfies it)
//@ replay_stub: frequencies/reverse_purge_item_hash_map.rs | pub fn get(&self, key: &T) -> u64 { | return self::verif_kani_frequencies_map::abs_get(self, key);
//@ replay_stub: frequencies/reverse_purge_item_hash_map.rs | pub fn adjust_or_put_value(&mut self, key: T, adjust_amount: u64) { | return self::verif_kani_frequencies_map::abs_adjust_or_put_value(self, key, adjust_amount);
//@ replay_stub: frequencies/reverse_purge_item_hash_map.rs | pub fn purge(&mut self, sample_size: usize) -> u64 { | return self::verif_kani_frequencies_map::abs_purge(self, sample_size);
//@ replay_stub: frequencies/reverse_purge_item_hash_map.rs | pub fn num_active(&self) -> usize { | return self::verif_kani_frequencies_map::abs_num_active(self);
//@ desc: one update_with_count(y, w) from any valid sketch state: afterwards lower_bound(x) <= true(x) <= upper_bound(x) for every key, ub - lb = maximum_error, total_weight exact, tracked keys <= capacity, invariant re-established; a zero weight changes nothing (the error bound maximum_error <= N/3 is c07_sketch_amortisation_* )
#[kani::proof]
#[kani::unwind(10)]
#[kani::stub(crate::frequencies::reverse_purge_item_hash_map::ReversePurgeItemHashMap::adjust_or_put_value, abs_adjust_or_put_value)]
#[kani::stub(crate::frequencies::reverse_purge_item_hash_map::ReversePurgeItemHashMap::get, abs_get)]
#[kani::stub(crate::frequencies::reverse_purge_item_hash_map::ReversePurgeItemHashMap::num_active, abs_num_active)]
#[kani::stub(crate::frequencies::reverse_purge_item_hash_map::ReversePurgeItemHashMap::purge, abs_purge)]
fn c07_sketch_update_all_states() {
    let (mut s, mut t) = any_abs_world();
    check_abs_invariant(&s, &t);
    let y: u64 = kani::any();
    kani::assume((y as usize) < D);
    let w: u64 = kani::any();
    kani::assume(w < ABS_BOUND);
    let off0 = s.maximum_error();
    let n0 = s.total_weight();
    s.update_with_count(y, w);
    t[y as usize] += w;
    assert!(s.total_weight() == n0 + w);
    assert!(s.maximum_error() >= off0, "maximum_error decreased");
    check_abs_invariant(&s, &t);
    kani::cover!(s.maximum_error() > off0); // a purging update
    kani::cover!(s.maximum_error() > off0 && s.num_active_items() == 0); // all counters equal: the purge empties the map
    kani::cover!(w == 0);
    core::mem::forget(s);
}

/// `other` for merge: a REAL map in a concrete occupancy layout (merge only iterates it)
fn other_world(layout: [u16; 8]) -> World {
    world_with_layout(layout)
}

fn merge_abs_case(layout_other: [u16; 8]) {
    vm::init_home();
    let o = other_world(layout_other);
    let (mut s, mut t) = any_abs_world();
    let ns = s.total_weight();
    let no = o.s.total_weight();
    let off_s = s.maximum_error();
    let off_o = o.s.maximum_error();
    s.merge(&o.s);
    let mut x = 0;
    while x < D {
        t[x] += o.t[x];
        x += 1;
    }
    assert!(s.total_weight() == ns + no, "merged total_weight is not the sum of the operands");
    assert!(s.maximum_error() >= off_s + off_o || no == 0, "the other sketch's error was not added");
    check_abs_invariant(&s, &t);
    assert!(o.s.total_weight() == no && o.s.maximum_error() == off_o, "merge modified its argument");
    kani::cover!(no > 0 && off_o > 0);
    kani::cover!(no == 0 || layout_other[3] != 0 || layout_other[1] != 0);
    core::mem::forget((s, o));
}

macro_rules! merge_abs {
    ($name:ident, $lo:expr) => {
        #[kani::proof]
        #[kani::unwind(10)]
        #[kani::stub(crate::frequencies::reverse_purge_item_hash_map::hash_item, verif_hash_item)]
        #[kani::stub(crate::frequencies::reverse_purge_item_hash_map::ReversePurgeItemHashMap::adjust_or_put_value, abs_adjust_or_put_value)]
        #[kani::stub(crate::frequencies::reverse_purge_item_hash_map::ReversePurgeItemHashMap::get, abs_get)]
        #[kani::stub(crate::frequencies::reverse_purge_item_hash_map::ReversePurgeItemHashMap::num_active, abs_num_active)]
        #[kani::stub(crate::frequencies::reverse_purge_item_hash_map::ReversePurgeItemHashMap::purge, abs_purge)]
        fn $name() {
            merge_abs_case($lo);
        }
    };
}

//@ family: merge_abs
//@ props: C07 C17 C18
//@ tier: thorough
//@ timeout: 1800
//@ functions: frequencies::FrequentItemsSketch::merge
//@ functions: frequencies::FrequentItemsSketch::update_with_count
//@ functions: frequencies::ReversePurgeItemIter::next
//@ functions: frequencies::ReversePurgeItemHashMap::iter
//@ unwind: 10
//@ stubs: map operations of the receiver -> contracts over the abstract counter array; hash_item -> symbolic home table (for the real map of the argument)
//@ bounds: receiver: EVERY abstract state of a size-8 sketch (as c07_sketch_update_all_states); argument: a real size-8 sketch in the occupancy layout of the instance - no tracked key (the state an all-equal purge leaves: stream_weight > 0, offset > 0, or a truly empty sketch), 1 key, or 3 keys - with symbolic keys, counters, offset and ghost true counts
//@ assumes: both operands satisfy the sketch invariant with their own ghost true counts
//@ replay_stub: frequencies/reverse_purge_item_hash_map.rs | pub fn get(&self, key: &T) -> u64 { | return self::verif_kani_frequencies_map::abs_get(self, key);
//@ replay_stub: frequencies/reverse_purge_item_hash_map.rs | pub fn adjust_or_put_value(&mut self, key: T, adjust_amount: u64) { | return self::verif_kani_frequencies_map::abs_adjust_or_put_value(self, key, adjust_amount);
//@ replay_stub: frequencies/reverse_purge_item_hash_map.rs | pub fn purge(&mut self, sample_size: usize) -> u64 { | return self::verif_kani_frequencies_map::abs_purge(self, sample_size);
//@ replay_stub: frequencies/reverse_purge_item_hash_map.rs | pub fn num_active(&self) -> usize { | return self::verif_kani_frequencies_map::abs_num_active(self);
//@ replay_stub: frequencies/reverse_purge_item_hash_map.rs | fn hash_item<T: Hash>(item: &T) -> u64 { | return self::verif_kani_frequencies_map::verif_hash_item(item);
//@ desc: merge(other): for every key lb <= t_self + t_other <= ub, total_weight = sum of both, the argument's error is added, maximum_error <= N/3, capacity respected, invariant re-established, argument unchanged - also when the argument tracks no key but carries weight
merge_abs!(c07_sketch_merge_purged_other, vm::LAYOUT_0);
merge_abs!(c07_sketch_merge_one_key, vm::LAYOUT_1); //@ tier: quick
merge_abs!(c07_sketch_merge_three_keys, vm::LAYOUT_3);
//@ endfamily: x

fn cut_purge_abs<T: Eq + Hash>(_m: &mut ReversePurgeItemHashMap<T>, _sample: usize) -> u64 {
    panic!("verif cut: purge reached in the no-purge amortisation harness");
}

//@ props: C07 C17
//@ tier: quick
//@ timeout: 900
//@ functions: frequencies::FrequentItemsSketch::update_with_count
//@ functions: frequencies::FrequentItemsSketch::maximum_error
//@ stubs: map operations -> contracts over the abstract counter array; purge cut (this harness covers the updates that do not purge)
//@ bounds: abstract states with <= 3 tracked keys (so that the update cannot purge), counters / offset / weight < 2^8
//@ assumes: 3*maximum_error + sum(counters) <= total_weight (the amortisation invariant; new() satisfies it)
//@ replay_stub: frequencies/reverse_purge_item_hash_map.rs | pub fn get(&self, key: &T) -> u64 { | return self::verif_kani_frequencies_map::abs_get(self, key);
//@ replay_stub: frequencies/reverse_purge_item_hash_map.rs | pub fn adjust_or_put_value(&mut self, key: T, adjust_amount: u64) { | return self::verif_kani_frequencies_map::abs_adjust_or_put_value(self, key, adjust_amount);
//@ replay_stub: frequencies/reverse_purge_item_hash_map.rs | pub fn num_active(&self) -> usize { | return self::verif_kani_frequencies_map::abs_num_active(self);
//@ desc: an update that does not purge preserves 3*maximum_error + sum(counters) <= total_weight, hence maximum_error <= total_weight/3 < epsilon*total_weight
#[kani::proof]
#[kani::unwind(10)]
#[kani::stub(crate::frequencies::reverse_purge_item_hash_map::ReversePurgeItemHashMap::adjust_or_put_value, abs_adjust_or_put_value)]
#[kani::stub(crate::frequencies::reverse_purge_item_hash_map::ReversePurgeItemHashMap::get, abs_get)]
#[kani::stub(crate::frequencies::reverse_purge_item_hash_map::ReversePurgeItemHashMap::num_active, abs_num_active)]
#[kani::stub(crate::frequencies::reverse_purge_item_hash_map::ReversePurgeItemHashMap::purge, cut_purge_abs)]
fn c07_sketch_amortisation_update() {
    // three possibly-tracked keys (sums of three 8-bit counters: re-associating longer / wider sums is what
    // SAT solvers are bad at - the 8-key, 16-bit version did not finish in 15 min)
    let mut sum = 0u64;
    let mut x = 0;
    while x < D {
        let c: u64 = if x < 3 { kani::any() } else { 0 };
        kani::assume(c < 256);
        unsafe {
            vm::ABS[x] = c;
        }
        sum += c;
        x += 1;
    }
    let offset: u64 = kani::any();
    let total: u64 = kani::any();
    kani::assume(offset < 256 && total < 4096 && 3 * offset + sum <= total);
    let mut s = FrequentItemsSketch {
        lg_max_map_size: 3,
        cur_map_cap: 6,
        offset,
        stream_weight: total,
        sample_size: 6,
        hash_map: vm::abs_map(),
    };
    let y: u64 = kani::any();
    kani::assume(y < 3);
    let w: u64 = kani::any();
    kani::assume(w < 256);
    s.update_with_count(y, w);
    check_amortisation(&s);
    kani::cover!(w > 0);
    core::mem::forget(s);
}

//@ props: C07 C17
//@ tier: thorough
//@ timeout: 900
//@ functions: frequencies::FrequentItemsSketch::maybe_resize_or_purge
//@ stubs: map operations -> contracts over the abstract counter array
//@ replay_stub: frequencies/reverse_purge_item_hash_map.rs | pub fn get(&self, key: &T) -> u64 { | if self.load_threshold == self::verif_kani_frequencies_map::ABS_TAG { return self::verif_kani_frequencies_map::abs_get(self, key); }
//@ replay_stub: frequencies/reverse_purge_item_hash_map.rs | pub fn adjust_or_put_value(&mut self, key: T, adjust_amount: u64) { | if self.load_threshold == self::verif_kani_frequencies_map::ABS_TAG { return self::verif_kani_frequencies_map::abs_adjust_or_put_value(self, key, adjust_amount); }
//@ replay_stub: frequencies/reverse_purge_item_hash_map.rs | pub fn purge(&mut self, sample_size: usize) -> u64 { | if self.load_threshold == self::verif_kani_frequencies_map::ABS_TAG { return self::verif_kani_frequencies_map::abs_purge(self, sample_size); }
//@ replay_stub: frequencies/reverse_purge_item_hash_map.rs | pub fn num_active(&self) -> usize { | if self.load_threshold == self::verif_kani_frequencies_map::ABS_TAG { return self::verif_kani_frequencies_map::abs_num_active(self); }
//@ bounds: the abstract state right before a purge: 7 tracked keys, counters sorted ascending (without loss of generality: the statement only involves the multiset of counters), counters / offset < 2^8
//@ assumes: 3*maximum_error + sum(counters) <= total_weight before the purge
//@ replay_stub: frequencies/reverse_purge_item_hash_map.rs | pub fn purge(&mut self, sample_size: usize) -> u64 { | return self::verif_kani_frequencies_map::abs_purge(self, sample_size);
//@ replay_stub: frequencies/reverse_purge_item_hash_map.rs | pub fn num_active(&self) -> usize { | return self::verif_kani_frequencies_map::abs_num_active(self);
//@ desc: the purge step of maybe_resize_or_purge (offset += median returned by a purge whose contract guarantees >= 3 counters >= median) preserves 3*maximum_error + sum(counters) <= total_weight and leaves <= 6 tracked keys, so it never reaches the "purge did not reduce" panic
#[kani::proof]
#[kani::unwind(10)]
#[kani::stub(crate::frequencies::reverse_purge_item_hash_map::ReversePurgeItemHashMap::num_active, abs_num_active)]
#[kani::stub(crate::frequencies::reverse_purge_item_hash_map::ReversePurgeItemHashMap::purge, abs_purge)]
fn c07_sketch_amortisation_purge() {
    let mut sum = 0u64;
    let mut prev = 0u64;
    let mut x = 0;
    while x < D {
        let c: u64 = kani::any();
        kani::assume(c < 256 && c >= prev);
        // exactly 7 tracked keys: the smallest slot is empty
        kani::assume((x == 0) == (c == 0));
        prev = c;
        unsafe {
            vm::ABS[x] = c;
        }
        sum += c;
        x += 1;
    }
    let offset: u64 = kani::any();
    kani::assume(offset < 256);
    let total: u64 = kani::any();
    kani::assume(total < (1u64 << 13) && 3 * offset + sum <= total);
    let mut s = FrequentItemsSketch {
        lg_max_map_size: 3,
        cur_map_cap: 6,
        offset,
        stream_weight: total,
        sample_size: 6,
        hash_map: vm::abs_map(),
    };
    s.maybe_resize_or_purge();
    assert!(s.maximum_error() > offset, "the purge did not raise the error term");
    check_amortisation(&s);
    assert!(s.num_active_items() <= 6);
    kani::cover!(s.num_active_items() == 0);
    kani::cover!(s.num_active_items() == 3);
    core::mem::forget(s);
}
