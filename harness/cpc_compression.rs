//@@ attach: cpc/compression.rs
// CPC compression kernels: pseudo-phase arithmetic, Golomb parameter, buffer-length bounds, unary code
// round trip, Huffman table pairs are mutually inverse, pair / byte stream round trips.
use super::*;

fn spec_pseudo_phase(lg_k: u8, c: u64) -> u8 {
    let k: u128 = 1u128 << lg_k;
    let c = c as u128;
    if 1000 * c < 2375 * k {
        if 4 * c < 3 * k {
            16
        } else if 10 * c < 11 * k {
            17
        } else if 100 * c < 132 * k {
            18
        } else if 3 * c < 5 * k {
            19
        } else if 1000 * c < 1965 * k {
            20
        } else if 1000 * c < 2275 * k {
            21
        } else {
            6
        }
    } else {
        ((c >> (lg_k - 4)) & 15) as u8
    }
}

//@ props: C05 C11 C12 C17
//@ tier: quick
//@ timeout: 300
//@ functions: cpc::compression::determine_pseudo_phase
//@ bounds: every lg_k in 4..=26, every num_coupons in 0..=min(u32::MAX, 64*2^lg_k)
//@ desc: determine_pseudo_phase equals its 128-bit specification (the thresholds of the reference implementation) for every admissible (lg_k, C), is < 22 (a valid table index), and never overflows
#[kani::proof]
fn c17_determine_pseudo_phase_spec() {
    let lg_k: u8 = kani::any();
    kani::assume(lg_k >= 4 && lg_k <= 26);
    let c: u32 = kani::any();
    kani::assume((c as u64) <= 64u64 << lg_k);
    let got = determine_pseudo_phase(lg_k, c);
    assert!(got == spec_pseudo_phase(lg_k, c as u64), "pseudo-phase differs from the 128-bit specification");
    assert!(got < 22);
    kani::cover!(lg_k == 21 && c > (1 << 22));
    kani::cover!(got == 6);
    kani::cover!(got == 15 && lg_k == 26);
}

//@ props: C11 C17 C18
//@ tier: quick
//@ timeout: 600
//@ functions: cpc::compression::golomb_choose_number_of_base_bits
//@ functions: cpc::compression::floor_log2_of_long
//@ functions: cpc::compression::safe_length_for_compressed_pair_buf
//@ functions: cpc::compression::safe_length_for_compressed_window_buf
//@ functions: cpc::compression::divide_longs_rounding_up
//@ bounds: every lg_k in 4..=26, every pair count 1..=2^26 (a pair table never holds more)
//@ desc: the Golomb parameter is floor(log2((k + n - n) / n)) (0 when the quotient is 0) and at most 26; the safe buffer lengths are the documented bit budgets rounded up to words and do not overflow
#[kani::proof]
#[kani::unwind(70)]
fn c17_golomb_and_buffer_lengths() {
    let lg_k: u8 = kani::any();
    kani::assume(lg_k >= 4 && lg_k <= 26);
    let k: u32 = 1 << lg_k;
    let n: u32 = kani::any();
    kani::assume(n >= 1 && n <= (1 << 26));
    let b = golomb_choose_number_of_base_bits(k + n, n as u64);
    let q = (k as u64) / (n as u64);
    if q == 0 {
        assert!(b == 0);
    } else {
        assert!(b <= 26 && (1u64 << b) <= q && q < (2u64 << b), "base bits is not floor(log2(k/n))");
    }
    let len = safe_length_for_compressed_pair_buf(k, n, b);
    let bits = (n as u64) * (1 + b as u64) + ((k as u64) >> b) + 12 * (n as u64) + (10u64.saturating_sub(b as u64));
    assert!(len as u64 == (bits + 31) / 32, "pair buffer length");
    let wlen = safe_length_for_compressed_window_buf(k);
    assert!(wlen as u64 == (12 * k as u64 + 11 + 31) / 32, "window buffer length");
    kani::cover!(b == 0);
    kani::cover!(b == 22);
}

//@ props: C11 C17
//@ tier: quick
//@ timeout: 900
//@ functions: cpc::compression::write_unary
//@ functions: cpc::compression::read_unary
//@ functions: cpc::compression::maybe_flush_bitbuf
//@ functions: cpc::compression::maybe_fill_bitbuf
//@ bounds: every unary value 0..=70 written at every bit offset 0..=31 after arbitrary earlier bits, into a 4-word buffer
//@ desc: read_unary(write_unary(v)) == v and the reader ends at the bit position where the writer ended (prefix bits preserved)
#[kani::proof]
#[kani::unwind(12)]
fn c11_unary_roundtrip() {
    let v: u64 = kani::any();
    kani::assume(v <= 70);
    let off: u8 = kani::any();
    kani::assume(off <= 31);
    let pre: u64 = kani::any();
    kani::assume(off == 0 || pre < (1u64 << off));
    kani::assume(off != 0 || pre == 0);
    let mut words = [0u32; 5];
    let mut idx = 0usize;
    let mut bitbuf = pre;
    let mut bufbits = off;
    write_unary(&mut words, &mut idx, &mut bitbuf, &mut bufbits, v);
    // flush what is left
    let end_bits = idx * 32 + bufbits as usize;
    if bufbits > 0 {
        words[idx] = (bitbuf & 0xffff_ffff) as u32;
    }
    assert!(end_bits == off as usize + v as usize + 1, "unary code has the wrong length");
    // read back: skip the prefix bits first
    let mut ridx = 0usize;
    let mut rbuf = 0u64;
    let mut rbits = 0u8;
    maybe_fill_bitbuf(&mut rbuf, &mut rbits, &words, &mut ridx, 32);
    assert!(off == 0 || (rbuf & ((1u64 << off) - 1)) == pre, "bits before the unary code were disturbed");
    rbuf >>= off;
    rbits -= off;
    let got = read_unary(&words, &mut ridx, &mut rbuf, &mut rbits);
    assert!(got == v, "read_unary does not invert write_unary");
    kani::cover!(v == 70 && off == 31);
    kani::cover!(v == 0);
}

macro_rules! huffman_table_inverse {
    ($name:ident, $lo:expr, $hi:expr) => {
        #[kani::proof]
        #[kani::unwind(4)]
        fn $name() {
            let t: usize = kani::any();
            kani::assume(t >= $lo && t < $hi);
            let byte: u8 = kani::any();
            let pad: u16 = kani::any();
            let code_info = ENCODING_TABLES_FOR_HIGH_ENTROPY_BYTE[t][byte as usize];
            let code_val = code_info & 0xfff;
            let code_len = code_info >> 12;
            assert!(code_len >= 1 && code_len <= 12, "code length outside 1..=12");
            assert!(code_val < (1 << code_len), "code value does not fit its length");
            // the decoder peeks 12 bits: the code followed by arbitrary look-ahead bits
            let peek = (code_val | (pad << code_len)) & 0xfff;
            let lookup = DECODING_TABLES_FOR_HIGH_ENTROPY_BYTE[t][peek as usize];
            assert!((lookup >> 8) == code_len, "decoder consumes a different number of bits than the encoder wrote");
            assert!((lookup & 0xff) as u8 == byte, "decoding table does not invert the encoding table");
            kani::cover!(code_len == 12);
        }
    };
}

//@ family: huffman_table_inverse
//@ props: C11 C12
//@ tier: thorough
//@ timeout: 900
//@ functions: cpc::compression_data::ENCODING_TABLES_FOR_HIGH_ENTROPY_BYTE
//@ functions: cpc::compression_data::DECODING_TABLES_FOR_HIGH_ENTROPY_BYTE
//@ unwind: 4
//@ bounds: the tables of the instance's pseudo-phase range, every byte value, every value of the 12-bit look-ahead padding
//@ desc: each of the 22 Huffman encode/decode table pairs is mutually inverse: for every byte and every following bit pattern the decoder recovers the byte and consumes exactly the code's length (prefix-free code)
huffman_table_inverse!(c11_huffman_tables_0_11, 0, 11); //@ tier: quick
huffman_table_inverse!(c11_huffman_tables_11_22, 11, 22); //@ tier: quick
//@ endfamily: x

//@ props: C11 C12
//@ tier: quick
//@ timeout: 600
//@ functions: cpc::compression_data::LENGTH_LIMITED_UNARY_ENCODING_TABLE65
//@ functions: cpc::compression_data::LENGTH_LIMITED_UNARY_DECODING_TABLE65
//@ functions: cpc::compression_data::COLUMN_PERMUTATIONS_FOR_ENCODING
//@ functions: cpc::compression_data::COLUMN_PERMUTATIONS_FOR_DECODING
//@ bounds: every x-delta 0..=64 with every look-ahead padding; every one of the 16 column permutations and every column 0..56
//@ desc: the length-limited unary table pair is mutually inverse and the 16 column permutation pairs are inverse permutations of 0..56
#[kani::proof]
fn c11_unary_table_and_permutations_inverse() {
    let x: usize = kani::any();
    kani::assume(x <= 64);
    let pad: u16 = kani::any();
    let code_info = LENGTH_LIMITED_UNARY_ENCODING_TABLE65[x];
    let code_val = code_info & 0xfff;
    let code_len = code_info >> 12;
    assert!(code_len >= 1 && code_len <= 12 && code_val < (1 << code_len));
    let peek = (code_val | (pad << code_len)) & 0xfff;
    let lookup = LENGTH_LIMITED_UNARY_DECODING_TABLE65[peek as usize];
    assert!((lookup >> 8) == code_len && (lookup & 0xff) as usize == x, "unary decoding table does not invert the encoding table");
    let p: usize = kani::any();
    kani::assume(p < 16);
    let col: usize = kani::any();
    kani::assume(col < 56);
    let e = COLUMN_PERMUTATIONS_FOR_ENCODING[p][col];
    assert!(e < 56);
    assert!(COLUMN_PERMUTATIONS_FOR_DECODING[p][e as usize] as usize == col, "column permutations are not inverse");
    let d = COLUMN_PERMUTATIONS_FOR_DECODING[p][col];
    assert!(d < 56 && COLUMN_PERMUTATIONS_FOR_ENCODING[p][d as usize] as usize == col);
    kani::cover!(x == 64);
}

fn pairs_stream_case<const N: usize>() {
    let p: [u32; N] = kani::any();
    let mut i = 0;
    while i < N {
        kani::assume(p[i] < (16 << 6));
        if i > 0 {
            kani::assume(p[i - 1] < p[i]);
        }
        i += 1;
    }
    let mut cs = CompressedState::default();
    cs.compress_surprising_values(&p, 4);
    assert!(cs.table_num_entries as usize == N);
    assert!(cs.table_data_words <= cs.table_data.len());
    let back = crate::verif_kani_common::expect_ok(uncompress_surprising_values(&cs.table_data, cs.table_data_words, N as u32, 4), "a compressed pair stream was rejected");
    assert!(back.len() == N);
    let mut i = 0;
    while i < N {
        assert!(back[i] == p[i], "pair stream does not round-trip");
        i += 1;
    }
    kani::cover!(p[N - 1] >> 6 == 15);
    core::mem::forget((cs, back));
}

macro_rules! pairs_stream {
    ($name:ident, $n:expr) => {
        #[kani::proof]
        #[kani::unwind(8)]
        fn $name() {
            pairs_stream_case::<$n>();
        }
    };
}

//@ family: pairs_stream
//@ props: C11 C14
//@ tier: thorough
//@ timeout: 3600
//@ functions: cpc::compression::CompressedState::low_level_compress_pairs
//@ functions: cpc::compression::low_level_uncompress_pairs
//@ functions: cpc::compression::CompressedState::compress_surprising_values
//@ functions: cpc::compression::uncompress_surprising_values
//@ unwind: 8
//@ bounds: lg_k = 4: the instance's number (1, 2, 3) of symbolic (row, col) pairs, sorted and distinct, rows 0..16, columns 0..64
//@ desc: compress_surprising_values followed by uncompress_surprising_values returns exactly the pair list (x-delta unary code + Golomb-coded y-delta)
pairs_stream!(c11_pairs_stream_roundtrip_1, 1); //@ tier: quick
pairs_stream!(c11_pairs_stream_roundtrip_2, 2); //@ tier: quick
pairs_stream!(c11_pairs_stream_roundtrip_3, 3);
//@ endfamily: x
