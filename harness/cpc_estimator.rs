//@@ attach: cpc/estimator.rs
// CPC confidence bounds: ordering and nesting (deterministic clauses of C01).
#![allow(static_mut_refs)]
use super::*;

static mut ICON: f64 = 0.0;
fn stub_icon_estimate(_lg_k: u8, _num_coupons: u32) -> f64 {
    unsafe { ICON }
}

fn kap(i: u8) -> NumStdDev {
    match i {
        1 => NumStdDev::One,
        2 => NumStdDev::Two,
        _ => NumStdDev::Three,
    }
}

fn cpc_bounds_case(lg_k: u8, s: u8, merged: bool) {
    let nc: u32 = kani::any();
    kani::assume(nc >= 1 && (nc as u64) <= 64u64 << lg_k);
    // HIP invariant: every novel coupon adds k / kxp >= 1 to the accumulator, so accum >= num_coupons
    // (for ICON the same is assumed of the polynomial estimate: ICON >= C; its value is outside the claim)
    let v: f64 = kani::any();
    kani::assume(v >= nc as f64 && v <= 1.0e15);
    unsafe {
        ICON = v;
    }
    let est = estimate(merged, v, lg_k, nc);
    assert!(est == v);
    let lb = lower_bound(merged, v, lg_k, nc, kap(s));
    let ub = upper_bound(merged, v, lg_k, nc, kap(s));
    assert!(lb <= est, "CPC lower bound above the estimate");
    assert!(est <= ub, "CPC upper bound below the estimate");
    assert!(lb >= nc as f64, "CPC lower bound below the number of coupons");
    if s < 3 {
        let lb2 = lower_bound(merged, v, lg_k, nc, kap(s + 1));
        let ub2 = upper_bound(merged, v, lg_k, nc, kap(s + 1));
        assert!(lb2 <= lb && ub <= ub2, "CPC bounds are not nested in kappa");
    }
    // empty sketch: everything is 0
    assert!(lower_bound(merged, 0.0, lg_k, 0, kap(s)) == 0.0 && upper_bound(merged, 0.0, lg_k, 0, kap(s)) == 0.0);
    kani::cover!(v > 1000.0);
}

macro_rules! cpc_bounds {
    ($name:ident, $lgk:expr, $s:expr, $merged:expr) => {
        #[kani::proof]
        #[kani::stub(icon_estimate, stub_icon_estimate)]
        fn $name() {
            cpc_bounds_case($lgk, $s, $merged);
        }
    };
}

//@ family: cpc_bounds
//@ props: C01 C17
//@ tier: thorough
//@ timeout: 1800
//@ functions: cpc::estimator::estimate
//@ functions: cpc::estimator::lower_bound
//@ functions: cpc::estimator::upper_bound
//@ functions: cpc::estimator::hip_confidence_lb
//@ functions: cpc::estimator::hip_confidence_ub
//@ functions: cpc::estimator::icon_confidence_lb
//@ functions: cpc::estimator::icon_confidence_ub
//@ stubs: icon_estimate -> one arbitrary value >= num_coupons per run (the degree-19 polynomial is outside the claim)
//@ bounds: one concrete (lg_k, kappa, estimator) per instance; num_coupons 1..=64k symbolic; the HIP accumulator resp. the ICON estimate any value in [num_coupons, 1e15]
//@ desc: lower_bound(kappa) <= estimate <= upper_bound(kappa), lower_bound >= num_coupons, and the kappa+1 interval contains the kappa interval (HIP and ICON tables for lg_k <= 14, the asymptotic constants above)
cpc_bounds!(c01_cpc_hip_bounds_lgk4_k1, 4, 1, false); //@ tier: quick
cpc_bounds!(c01_cpc_hip_bounds_lgk4_k2, 4, 2, false);
cpc_bounds!(c01_cpc_hip_bounds_lgk11_k2, 11, 2, false); //@ tier: quick
cpc_bounds!(c01_cpc_hip_bounds_lgk14_k3, 14, 3, false);
cpc_bounds!(c01_cpc_hip_bounds_lgk15_k1, 15, 1, false);
cpc_bounds!(c01_cpc_icon_bounds_lgk4_k1, 4, 1, true); //@ tier: quick
cpc_bounds!(c01_cpc_icon_bounds_lgk12_k2, 12, 2, true);
cpc_bounds!(c01_cpc_icon_bounds_lgk20_k1, 20, 1, true);
//@ endfamily: x

//@ props: C01 C17
//@ tier: quick
//@ timeout: 600
//@ functions: cpc::estimator::hip_confidence_lb
//@ bounds: all 33 entries of each of the four error tables (lg_k 4..=14 x kappa 1..=3)
//@ desc: every table entry is a positive relative error below 1 and kappa * entry is non-decreasing in kappa for each lg_k (this is what nests the intervals); with 1 - kappa * entry / sqrt(k) > 0 the upper bounds stay finite and positive
#[kani::proof]
#[kani::unwind(40)]
fn c01_cpc_error_tables_monotone() {
    let mut lg = 0usize;
    while lg < 11 {
        let k = (1u64 << (lg + 4)) as f64;
        let mut t = 0;
        while t < 4 {
            let tab: &[u16; 33] = match t {
                0 => &ICON_LOW_SIDE_DATA,
                1 => &ICON_HIGH_SIDE_DATA,
                2 => &HIP_LOW_SIDE_DATA,
                _ => &HIP_HIGH_SIDE_DATA,
            };
            let a = tab[3 * lg] as u32;
            let b = 2 * tab[3 * lg + 1] as u32;
            let c = 3 * tab[3 * lg + 2] as u32;
            assert!(a > 0 && a <= b && b <= c, "kappa * relative error is not non-decreasing in kappa");
            // 3 * x / sqrt(k) < 1  <=>  c^2 < 10^8 * k
            assert!((c as u64) * (c as u64) < 100_000_000 * (1u64 << (lg + 4)), "upper-bound denominator 1 - eps is not positive");
            let _ = k;
            t += 1;
        }
        lg += 1;
    }
    kani::cover!(true);
}
