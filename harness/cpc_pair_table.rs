//@@ attach: cpc/pair_table.rs
// PairTable (linear probing with deletion) at 4 and 8 slots, 10 valid bits (lg_k = 4 row/col pairs).
use super::*;

pub(crate) const NVB: u8 = 10;

pub(crate) fn raw_table(lg_size: u8, slots: &[u32]) -> PairTable {
    let mut n = 0;
    let mut i = 0;
    while i < slots.len() {
        if slots[i] != u32::MAX {
            n += 1;
        }
        i += 1;
    }
    PairTable { lg_size, num_valid_bits: NVB, num_items: n, slots: slots.to_vec() }
}

/// table with an explicit key width (for sketches of another lg_k than 4)
pub(crate) fn raw_table_nvb(lg_size: u8, num_valid_bits: u8, slots: &[u32]) -> PairTable {
    let mut t = raw_table(lg_size, slots);
    t.num_valid_bits = num_valid_bits;
    t
}

pub(crate) fn lookup_of(t: &PairTable, item: u32) -> u32 {
    t.lookup(item)
}

fn home(item: u32, lg_size: u8) -> usize {
    (item >> (NVB - lg_size)) as usize
}

/// full linear-probing invariant: items < 2^NVB, distinct, and no empty slot between an item's home
/// and its position (cyclically)
pub(crate) fn table_invariant(t: &PairTable) -> bool {
    let size = 1usize << t.lg_size;
    if t.slots.len() != size {
        return false;
    }
    let mut n = 0u32;
    let mut i = 0;
    while i < size {
        let it = t.slots[i];
        if it != u32::MAX {
            n += 1;
            if it >= (1 << NVB) {
                return false;
            }
            let mut p = home(it, t.lg_size);
            let mut guard = 0;
            while p != i {
                if t.slots[p] == u32::MAX {
                    return false;
                }
                p = (p + 1) & (size - 1);
                guard += 1;
                if guard > size {
                    return false;
                }
            }
            let mut j = i + 1;
            while j < size {
                if t.slots[j] == it {
                    return false;
                }
                j += 1;
            }
        }
        i += 1;
    }
    n == t.num_items
}

pub(crate) fn num_items_of(t: &PairTable) -> u32 {
    t.num_items
}

pub(crate) fn has(t: &PairTable, item: u32) -> bool {
    let mut i = 0;
    while i < t.slots.len() {
        if t.slots[i] == item {
            return true;
        }
        i += 1;
    }
    false
}

//@ props: C05 C17
//@ tier: quick
//@ timeout: 900
//@ functions: cpc::pair_table::PairTable::maybe_insert
//@ functions: cpc::pair_table::PairTable::lookup
//@ functions: cpc::pair_table::PairTable::rebuild
//@ functions: cpc::pair_table::PairTable::must_insert
//@ bounds: table of 4 slots (the size every sketch starts with) holding 0..=3 items of 10 valid bits, every layout satisfying the probing invariant, every offered item < 2^10; includes the insert that up-sizes to 8 slots
//@ assumes: linear-probing invariant (table_invariant) - re-established by this step and by c05_pair_table_delete_step
//@ desc: maybe_insert has set semantics (true iff new), every other item stays present, num_items exact, load <= 3/4 afterwards (up-sizing when exceeded), invariant preserved
#[kani::proof]
#[kani::unwind(10)]
fn c05_pair_table_insert_step() {
    let s: [u32; 4] = kani::any();
    let mut t = raw_table(2, &s);
    kani::assume(table_invariant(&t));
    kani::assume(t.num_items <= 3);
    let n0 = t.num_items;
    let x: u32 = kani::any();
    kani::assume(x < (1 << NVB));
    let y: u32 = kani::any();
    kani::assume(y < (1 << NVB) && y != x);
    let had_x = has(&t, x);
    let had_y = has(&t, y);
    let novel = t.maybe_insert(x);
    assert!(novel == !had_x, "maybe_insert result is not 'was absent'");
    assert!(has(&t, x), "inserted item missing");
    assert!(has(&t, y) == had_y, "bystander item lost or invented");
    assert!(t.num_items == n0 + if had_x { 0 } else { 1 });
    assert!(table_invariant(&t), "probing invariant broken by maybe_insert");
    assert!(4 * t.num_items <= 3 * (1u32 << t.lg_size), "table left over-full");
    kani::cover!(t.lg_size == 3);
    kani::cover!(had_x);
    core::mem::forget(t);
}

//@ props: C05 C17
//@ tier: quick
//@ timeout: 1200
//@ functions: cpc::pair_table::PairTable::maybe_delete
//@ functions: cpc::pair_table::PairTable::lookup
//@ functions: cpc::pair_table::PairTable::must_insert
//@ functions: cpc::pair_table::PairTable::rebuild
//@ bounds: table of 8 slots holding 0..=6 items of 10 valid bits, every invariant-satisfying layout (wrap-around clusters included), every offered item; includes the delete that down-sizes to 4 slots
//@ assumes: linear-probing invariant (table_invariant)
//@ desc: maybe_delete removes exactly the offered item (true iff present), re-inserts the rest of its cluster so that every other item is still found, num_items exact, invariant preserved, down-sizes below 1/4 load
#[kani::proof]
#[kani::unwind(10)]
fn c05_pair_table_delete_step() {
    let s: [u32; 8] = kani::any();
    let mut t = raw_table(3, &s);
    kani::assume(table_invariant(&t));
    kani::assume(t.num_items <= 6);
    let n0 = t.num_items;
    let x: u32 = kani::any();
    kani::assume(x < (1 << NVB));
    let y: u32 = kani::any();
    kani::assume(y < (1 << NVB) && y != x);
    let had_x = has(&t, x);
    let had_y = has(&t, y);
    let removed = t.maybe_delete(x);
    assert!(removed == had_x, "maybe_delete result is not 'was present'");
    assert!(!has(&t, x), "deleted item still present");
    assert!(has(&t, y) == had_y, "bystander item lost or invented by delete");
    assert!(t.num_items == n0 - if had_x { 1 } else { 0 });
    assert!(table_invariant(&t), "probing invariant broken by maybe_delete (hole left in a cluster?)");
    let idx = t.lookup(y) as usize;
    assert!((t.slots[idx] == y) == had_y, "bystander no longer reachable by lookup");
    kani::cover!(had_x && t.lg_size == 2);
    kani::cover!(had_x && had_y && t.lg_size == 3);
    core::mem::forget(t);
}

fn get_items_case<const SLOTS: usize>(lg: u8, n: u32) {
    let s: [u32; SLOTS] = kani::any();
    let mut t = raw_table(lg, &s);
    kani::assume(table_invariant(&t));
    kani::assume(t.num_items == n);
    // (the count as a literal: the result vector is allocated with this length, and a symbolic-size
    // allocation is what made the any-count version exhaust 14 GB)
    t.num_items = n;
    let v = t.unwrapping_get_items();
    assert!(v.len() == n as usize);
    let x: u32 = kani::any();
    kani::assume(x < (1 << NVB));
    let mut cnt = 0;
    let mut i = 0;
    while i < v.len() {
        if v[i] == x {
            cnt += 1;
        }
        i += 1;
    }
    assert!(cnt == if has(&t, x) { 1 } else { 0 }, "item listed a wrong number of times");
    kani::cover!(n < 2 || (t.slots[0] != u32::MAX && t.slots[SLOTS - 1] != u32::MAX)); // a cluster that wraps around
    core::mem::forget((t, v));
}

macro_rules! get_items {
    ($name:ident, $slots:expr, $lg:expr, $n:expr) => {
        #[kani::proof]
        #[kani::unwind(10)]
        fn $name() {
            get_items_case::<$slots>($lg, $n);
        }
    };
}

//@ family: get_items
//@ props: C05 C11 C17
//@ tier: thorough
//@ timeout: 1800
//@ functions: cpc::pair_table::PairTable::unwrapping_get_items
//@ unwind: 10
//@ bounds: table of 4 slots with 1 or 3 items, table of 8 slots with 2, 4 or 6 items (count concrete per instance), every invariant-satisfying layout including clusters that wrap around the end
//@ assumes: linear-probing invariant (table_invariant)
//@ desc: unwrapping_get_items returns every stored item exactly once (num_items of them)
get_items!(c05_pair_table_get_items_4_1, 4, 2, 1); //@ tier: quick
get_items!(c05_pair_table_get_items_4_3, 4, 2, 3); //@ tier: quick
get_items!(c05_pair_table_get_items_8_2, 8, 3, 2);
get_items!(c05_pair_table_get_items_8_4, 8, 3, 4);
get_items!(c05_pair_table_get_items_8_6, 8, 3, 6);
//@ endfamily: x
