//@@ attach: theta/bit_pack.rs
// Bit packing of compact theta v4: pack_bits_block / unpack_bits_block for one concrete width per
// instance, against the big-endian bit stream that BitPacker defines; BitPacker / BitUnpacker inverse.
use super::*;

/// specification: the 8 values, `bits` bits each, most significant bit first, concatenated
fn spec_stream(values: &[u64; 8], bits: u8, out: &mut [u8; 64]) {
    let mut pos = 0usize;
    let mut i = 0;
    while i < 8 {
        let mut b = bits as i32 - 1;
        while b >= 0 {
            let bit = ((values[i] >> b) & 1) as u8;
            out[pos / 8] |= bit << (7 - (pos % 8));
            pos += 1;
            b -= 1;
        }
        i += 1;
    }
}

fn block_case<const BITS: u8>() {
    let v: [u64; 8] = kani::any();
    let mask = if BITS == 64 { u64::MAX } else { (1u64 << BITS) - 1 };
    let mut masked = [0u64; 8];
    let mut i = 0;
    while i < 8 {
        masked[i] = v[i] & mask;
        i += 1;
    }
    let mut bytes = [0u8; 64];
    pack_bits_block(&v, &mut bytes[..BITS as usize], BITS);
    let mut want = [0u8; 64];
    spec_stream(&masked, BITS, &mut want);
    let mut i = 0;
    while i < BITS as usize {
        assert!(bytes[i] == want[i], "packed block differs from the MSB-first bit stream");
        i += 1;
    }
    let mut back = [0u64; 8];
    unpack_bits_block(&mut back, &bytes[..BITS as usize], BITS);
    let mut i = 0;
    while i < 8 {
        assert!(back[i] == masked[i], "unpack_bits_block does not invert pack_bits_block");
        i += 1;
    }
    // the general packer produces the same stream
    let mut bytes2 = [0u8; 64];
    {
        let mut p = BitPacker::new(&mut bytes2[..BITS as usize]);
        let mut i = 0;
        while i < 8 {
            p.pack_value(masked[i], BITS);
            i += 1;
        }
        assert!(p.byte_used() == BITS as usize);
    }
    let mut i = 0;
    while i < BITS as usize {
        assert!(bytes2[i] == want[i], "BitPacker stream differs from the specification");
        i += 1;
    }
    let mut u = BitUnpacker::new(&bytes2[..BITS as usize]);
    let mut i = 0;
    while i < 8 {
        assert!(u.unpack_value(BITS) == masked[i], "BitUnpacker does not invert BitPacker");
        i += 1;
    }
}

macro_rules! pack_width {
    ($name:ident, $bits:expr) => {
        #[kani::proof]
        #[kani::unwind(66)]
        fn $name() {
            block_case::<$bits>();
            kani::cover!(true);
        }
    };
}

//@ family: pack_width
//@ props: C11 C12
//@ tier: thorough
//@ timeout: 900
//@ functions: theta::bit_pack::pack_bits_block
//@ functions: theta::bit_pack::unpack_bits_block
//@ functions: theta::bit_pack::BitPacker::pack_value
//@ functions: theta::bit_pack::BitUnpacker::unpack_value
//@ unwind: 66
//@ bounds: one concrete bit width per instance, 8 symbolic 64-bit values (bits above the width must be ignored)
//@ desc: pack_bits_N writes exactly the MSB-first concatenation of the 8 values' low N bits (the stream BitPacker and the Java/C++ packers define), unpack_bits_N inverts it, and BitPacker / BitUnpacker agree with both
pack_width!(c11_pack_bits_01, 1); //@ tier: quick
pack_width!(c11_pack_bits_02, 2);
pack_width!(c11_pack_bits_03, 3);
pack_width!(c11_pack_bits_04, 4);
pack_width!(c11_pack_bits_05, 5);
pack_width!(c11_pack_bits_06, 6);
pack_width!(c11_pack_bits_07, 7); //@ tier: quick
pack_width!(c11_pack_bits_08, 8);
pack_width!(c11_pack_bits_09, 9);
pack_width!(c11_pack_bits_10, 10);
pack_width!(c11_pack_bits_11, 11);
pack_width!(c11_pack_bits_12, 12);
pack_width!(c11_pack_bits_13, 13); //@ tier: quick
pack_width!(c11_pack_bits_14, 14);
pack_width!(c11_pack_bits_15, 15);
pack_width!(c11_pack_bits_16, 16);
pack_width!(c11_pack_bits_17, 17);
pack_width!(c11_pack_bits_18, 18);
pack_width!(c11_pack_bits_19, 19);
pack_width!(c11_pack_bits_20, 20);
pack_width!(c11_pack_bits_21, 21);
pack_width!(c11_pack_bits_22, 22);
pack_width!(c11_pack_bits_23, 23);
pack_width!(c11_pack_bits_24, 24);
pack_width!(c11_pack_bits_25, 25);
pack_width!(c11_pack_bits_26, 26);
pack_width!(c11_pack_bits_27, 27);
pack_width!(c11_pack_bits_28, 28);
pack_width!(c11_pack_bits_29, 29);
pack_width!(c11_pack_bits_30, 30);
pack_width!(c11_pack_bits_31, 31); //@ tier: quick
pack_width!(c11_pack_bits_32, 32);
pack_width!(c11_pack_bits_33, 33);
pack_width!(c11_pack_bits_34, 34);
pack_width!(c11_pack_bits_35, 35);
pack_width!(c11_pack_bits_36, 36);
pack_width!(c11_pack_bits_37, 37);
pack_width!(c11_pack_bits_38, 38);
pack_width!(c11_pack_bits_39, 39);
pack_width!(c11_pack_bits_40, 40);
pack_width!(c11_pack_bits_41, 41);
pack_width!(c11_pack_bits_42, 42);
pack_width!(c11_pack_bits_43, 43);
pack_width!(c11_pack_bits_44, 44);
pack_width!(c11_pack_bits_45, 45);
pack_width!(c11_pack_bits_46, 46);
pack_width!(c11_pack_bits_47, 47);
pack_width!(c11_pack_bits_48, 48);
pack_width!(c11_pack_bits_49, 49);
pack_width!(c11_pack_bits_50, 50);
pack_width!(c11_pack_bits_51, 51);
pack_width!(c11_pack_bits_52, 52);
pack_width!(c11_pack_bits_53, 53);
pack_width!(c11_pack_bits_54, 54);
pack_width!(c11_pack_bits_55, 55);
pack_width!(c11_pack_bits_56, 56);
pack_width!(c11_pack_bits_57, 57);
pack_width!(c11_pack_bits_58, 58);
pack_width!(c11_pack_bits_59, 59);
pack_width!(c11_pack_bits_60, 60);
pack_width!(c11_pack_bits_61, 61);
pack_width!(c11_pack_bits_62, 62);
pack_width!(c11_pack_bits_63, 63); //@ tier: quick
//@ endfamily: x
