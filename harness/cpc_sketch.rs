//@@ attach: cpc/sketch.rs
//@@ needs: cpc_pair_table.rs
// CpcSketch at lg_k = 4 (16 rows x 64 columns): the sketch represents exactly the bit matrix of the
// coupons offered. row_col_update is driven directly with symbolic (row, col) pairs.
use super::*;
use crate::cpc::pair_table::verif_kani_cpc_pair_table as vt;

const K: usize = 16;

fn popcount_matrix(m: &[u64]) -> u32 {
    let mut n = 0u32;
    let mut i = 0;
    while i < m.len() {
        let mut w = m[i];
        w = w - ((w >> 1) & 0x5555555555555555);
        w = (w & 0x3333333333333333) + ((w >> 2) & 0x3333333333333333);
        w = (w + (w >> 4)) & 0x0f0f0f0f0f0f0f0f;
        w = w + (w >> 8);
        w = w + (w >> 16);
        w = w + (w >> 32);
        n += (w & 0x7f) as u32;
        i += 1;
    }
    n
}

fn spec_offset(c: u32) -> u8 {
    // lg_k = 4: floor((8C - 19*16) / 128) clamped at 0
    let t = 8 * (c as i64) - 19 * 16;
    if t < 0 { 0 } else { (t / 128) as u8 }
}

/// Independent reconstruction of the matrix from the sketch fields (the specification of the windowed
/// encoding): columns below the offset default to 1, the window holds columns offset..offset+7, every
/// table entry flips its bit.
fn spec_matrix(s: &CpcSketch) -> [u64; K] {
    let mut m = [0u64; K];
    let o = s.window_offset as u32;
    let mut r = 0;
    while r < K {
        let early = if o == 0 { 0 } else { (1u64 << o) - 1 };
        let win = if s.sliding_window.is_empty() { 0 } else { (s.sliding_window[r] as u64) << o };
        m[r] = early | win;
        r += 1;
    }
    if let Some(t) = &s.surprising_value_table {
        let sl = t.slots();
        let mut i = 0;
        while i < sl.len() {
            if sl[i] != u32::MAX {
                m[(sl[i] >> 6) as usize] ^= 1u64 << (sl[i] & 63);
            }
            i += 1;
        }
    }
    m
}

fn check_consistent(s: &CpcSketch, model: &[u64; K]) {
    let m = s.build_bit_matrix();
    assert!(m.len() == K);
    let mut r = 0;
    while r < K {
        assert!(m[r] == model[r], "reconstructed bit matrix differs from the model matrix");
        r += 1;
    }
    let c = popcount_matrix(model);
    assert!(s.num_coupons() == c, "num_coupons is not the number of distinct (row, col) pairs");
    assert!(s.validate(), "validate() fails");
    assert!(s.window_offset == spec_offset(c), "window offset does not match the coupon count");
    assert!(s.flavor() == crate::cpc::determine_flavor(4, c));
    // every column below first_interesting_column is full (that is what licenses the early return)
    let fic = s.first_interesting_column as u32;
    assert!(fic <= 63);
    let mut r = 0;
    while r < K {
        let low = if fic == 0 { 0 } else { (1u64 << fic) - 1 };
        assert!(model[r] & low == low, "first_interesting_column skips a column that is not full");
        r += 1;
    }
    core::mem::forget(m);
}

//@ props: C05 C17
//@ tier: thorough
//@ timeout: 3000
//@ functions: cpc::sketch::CpcSketch::row_col_update
//@ functions: cpc::sketch::CpcSketch::update_sparse
//@ functions: cpc::sketch::CpcSketch::promote_sparse_to_windowed
//@ functions: cpc::sketch::CpcSketch::update_windowed
//@ functions: cpc::sketch::CpcSketch::update_hip
//@ functions: cpc::sketch::CpcSketch::build_bit_matrix
//@ functions: cpc::sketch::CpcSketch::validate
//@ bounds: lg_k = 4, histories of 3 symbolic (row, col) pairs from the empty sketch (Empty -> Sparse -> Hybrid, promotion at the 2nd distinct coupon), every row 0..15 and column 0..63, duplicates allowed; checked after every prefix
//@ desc: after every prefix the reconstructed bit matrix equals the model (OR of the offered pairs), num_coupons = popcount, validate() holds, offset/flavor match the count, first_interesting_column only skips full columns; no debug assertion fires
#[kani::proof]
#[kani::unwind(20)]
fn c05_history_from_empty() {
    let mut s = CpcSketch::new(4);
    let mut model = [0u64; K];
    check_consistent(&s, &model);
    let mut i = 0;
    while i < 3 {
        let row: u32 = kani::any();
        let col: u32 = kani::any();
        kani::assume(row < 16 && col < 64);
        s.row_col_update((row << 6) | col);
        model[row as usize] |= 1u64 << col;
        check_consistent(&s, &model);
        i += 1;
    }
    kani::cover!(s.num_coupons() == 3 && !s.sliding_window.is_empty());
    kani::cover!(s.num_coupons() == 1);
    core::mem::forget(s);
}

/// cuts: paths the harness's assumptions exclude; reaching one fails the harness
fn cut_move_window(_s: &mut CpcSketch) {
    panic!("verif cut: move_window reached although the step was assumed not to cross a window threshold");
}
fn cut_rebuild(_t: &mut PairTable, _lg: u8) {
    panic!("verif cut: PairTable::rebuild reached with <= 3 items in a 4-slot table");
}

/// arbitrary windowed sketch (Hybrid / Pinned / Sliding) with <= 2 surprising values
fn any_windowed() -> (CpcSketch, [u64; K]) {
    let o: u8 = kani::any();
    kani::assume(o <= 56);
    any_windowed_at(o)
}

/// the same with the window offset given (concrete per family instance: shifts by a symbolic offset are
/// what makes the symbolic-offset version take > 10 min)
fn any_windowed_at(o: u8) -> (CpcSketch, [u64; K]) {
    let window: [u8; K] = kani::any();
    let slots: [u32; 4] = kani::any();
    let t = vt::raw_table(2, &slots);
    kani::assume(vt::table_invariant(&t));
    let mut i = 0;
    while i < 4 {
        if slots[i] != u32::MAX {
            let col = (slots[i] & 63) as u8;
            // surprising values live outside the window: zeros before it, ones after it
            kani::assume(col < o || col >= o + 8);
        }
        i += 1;
    }
    let fic: u8 = kani::any();
    kani::assume(fic <= o);
    let mut s = CpcSketch::new(4);
    s.sliding_window = window.to_vec();
    s.window_offset = o;
    s.surprising_value_table = Some(t);
    s.first_interesting_column = fic;
    s.kxp = 8.0;
    s.hip_est_accum = 100.0;
    let m = spec_matrix(&s);
    let c = popcount_matrix(&m);
    s.num_coupons = c;
    // representation invariant: flavor >= Hybrid, offset matches the count, fic only skips full columns
    kani::assume(32 * c >= 3 * 16);
    kani::assume(spec_offset(c) == o);
    let mut r = 0;
    while r < K {
        let low = if fic == 0 { 0 } else { (1u64 << fic) - 1 };
        kani::assume(m[r] & low == low);
        r += 1;
    }
    (s, m)
}

fn windowed_step_case(offset: Option<u8>) {
    let (mut s, mut model) = match offset {
        Some(o) => any_windowed_at(o),
        None => any_windowed(),
    };
    let row: u32 = kani::any();
    let col: u32 = kani::any();
    kani::assume(row < 16 && col < 64);
    let c0 = s.num_coupons;
    // not the step that crosses the next window threshold: 8(C+1) < (27 + 8*offset) * K
    kani::assume(8 * (c0 as u64 + 1) < (27 + 8 * s.window_offset as u64) * 16);
    let o0 = s.window_offset;
    s.row_col_update((row << 6) | col);
    model[row as usize] |= 1u64 << col;
    check_consistent(&s, &model);
    assert!(s.window_offset == o0);
    kani::cover!(o0 == 0 || (s.num_coupons == c0 + 1 && (col as u8) < o0)); // surprising zero removed
    kani::cover!(o0 >= 56 || (s.num_coupons == c0 + 1 && (col as u8) >= o0 + 8)); // surprising one added
    kani::cover!(s.num_coupons == c0 + 1 && (col as u8) >= o0 && (col as u8) < o0 + 8); // window bit set
    kani::cover!(s.num_coupons == c0);
    core::mem::forget(s);
}

macro_rules! windowed_step {
    ($name:ident, $o:expr) => {
        #[kani::proof]
        #[kani::unwind(20)]
        #[kani::stub(CpcSketch::move_window, cut_move_window)]
        #[kani::stub(crate::cpc::pair_table::PairTable::rebuild, cut_rebuild)]
        fn $name() {
            windowed_step_case($o);
        }
    };
}

//@ family: windowed_step
//@ props: C05 C17
//@ tier: thorough
//@ timeout: 3600
//@ functions: cpc::sketch::CpcSketch::row_col_update
//@ functions: cpc::sketch::CpcSketch::update_windowed
//@ functions: cpc::sketch::CpcSketch::update_hip
//@ functions: cpc::sketch::CpcSketch::build_bit_matrix
//@ functions: cpc::pair_table::PairTable::maybe_insert
//@ functions: cpc::pair_table::PairTable::maybe_delete
//@ unwind: 20
//@ stubs: CpcSketch::move_window -> must-not-reach cut; PairTable::rebuild -> must-not-reach cut
//@ bounds: lg_k = 4, any windowed state: all 16 window bytes symbolic, window offset concrete per instance (0: Hybrid / Pinned, 1, 5, 56: Sliding; the *_any_offset instance has it symbolic 0..=56), <= 2 surprising values in a 4-slot table (any valid layout), first_interesting_column <= offset; one symbolic (row, col); steps that would move the window are excluded (assumed away, move_window is a self-checking cut)
//@ assumes: representation invariant of a windowed sketch: num_coupons = popcount of the represented matrix, offset = floor((8C-19K)/8K), C >= 3K/32, surprising values lie outside the window, columns below first_interesting_column are full
//@ desc: one update from an arbitrary windowed state (early-zone inverted logic, window bit, late surprising value): matrix' = matrix | bit, num_coupons = popcount, validate(), offset and first_interesting_column still valid
windowed_step!(c05_windowed_step_offset_0, Some(0));
windowed_step!(c05_windowed_step_offset_1, Some(1));
windowed_step!(c05_windowed_step_offset_5, Some(5));
windowed_step!(c05_windowed_step_offset_56, Some(56));
windowed_step!(c05_windowed_step_any_offset, None);
//@ endfamily: x

// ---------------------------------------------------------------------------------------------
// Light windowed-update step (quick tier): the three branches of update_windowed on a state with a
// symbolic window and at most one surprising value at a concrete table slot; the touched fields are
// compared directly instead of rebuilding and comparing the whole matrix twice.
// ---------------------------------------------------------------------------------------------

fn popcount_bytes(w: &[u8; K]) -> u32 {
    let mut n = 0u32;
    let mut i = 0;
    while i < K {
        n += w[i].count_ones();
        i += 1;
    }
    n
}

/// `o`: window offset (concrete). `surprise`: None = empty table; Some(slot) = one surprising value whose
/// home slot in the 4-slot table is `slot` (a late 1 when o == 0, a late 1 or an early 0 otherwise).
fn light_windowed_case(o: u8, surprise: Option<u32>) {
    let window: [u8; K] = kani::any();
    let mut slots = [u32::MAX; 4];
    let mut sv_row = 0u32;
    let mut sv_col = 0u32;
    if let Some(h) = surprise {
        // home slot = top two of the 10 key bits (row << 6 | col): the top two row bits
        let low: u32 = kani::any();
        kani::assume(low < 4);
        sv_row = (h << 2) | low;
        sv_col = kani::any();
        kani::assume(sv_col < 64 && ((sv_col as u8) < o || (sv_col as u8) >= o + 8));
        slots[h as usize] = (sv_row << 6) | sv_col;
    }
    let t = vt::raw_table(2, &slots);
    let early_surprise = surprise.is_some() && (sv_col as u8) < o;
    // coupons: early zone (all ones except a surprising zero) + window bits + a late surprising one
    let late_one: u32 = if surprise.is_some() && !early_surprise { 1 } else { 0 };
    let early_zero: u32 = if early_surprise { 1 } else { 0 };
    let c0: u32 = 16 * (o as u32) + popcount_bytes(&window) + late_one - early_zero;
    kani::assume(32 * c0 >= 3 * 16);
    kani::assume(spec_offset(c0) == o);
    // not the step that crosses the next window threshold: 8(C+1) < (27 + 8*offset) * K
    kani::assume(8 * (c0 as u64 + 1) < (27 + 8 * o as u64) * 16);
    let mut s = CpcSketch::new(4);
    s.sliding_window = window.to_vec();
    s.window_offset = o;
    s.surprising_value_table = Some(t);
    s.first_interesting_column = 0;
    s.kxp = 8.0;
    s.hip_est_accum = 100.0;
    s.num_coupons = c0;
    let row: u32 = kani::any();
    let col: u32 = kani::any();
    kani::assume(row < 16 && col < 64);
    let rc = (row << 6) | col;
    // model: was the bit (row, col) set before?
    let in_window = (col as u8) >= o && (col as u8) < o + 8;
    let is_sv = surprise.is_some() && row == sv_row && col == sv_col;
    let was_set = if in_window {
        window[row as usize] & (1u8 << (col as u8 - o)) != 0
    } else if (col as u8) < o {
        !is_sv // early zone: one unless it is the surprising zero
    } else {
        is_sv // late zone: zero unless it is the surprising one
    };
    s.row_col_update(rc);
    assert!(s.num_coupons == c0 + if was_set { 0 } else { 1 }, "num_coupons is not the number of distinct (row, col) pairs");
    assert!(s.window_offset == o, "window moved although the threshold was not crossed");
    // the window: only the addressed bit may change
    let mut r = 0;
    while r < K {
        let want = if in_window && r == row as usize { window[r] | (1u8 << (col as u8 - o)) } else { window[r] };
        assert!(s.sliding_window[r] == want, "window byte changed wrongly");
        r += 1;
    }
    // the surprising-value table: exactly the surprising values of the new matrix
    let tab = s.surprising_value_table();
    let holds_rc = vt::has(tab, rc);
    if in_window {
        assert!(vt::num_items_of(tab) == if surprise.is_some() { 1 } else { 0 });
    } else if (col as u8) < o {
        assert!(!holds_rc, "an early-zone bit that is now set is still listed as a surprising zero");
    } else {
        assert!(holds_rc, "a late-zone bit that is now set is not listed as a surprising one");
    }
    if surprise.is_some() && !(is_sv && (col as u8) < o) {
        assert!(vt::has(tab, (sv_row << 6) | sv_col), "the other surprising value was lost");
    }
    kani::cover!(!was_set && in_window);
    kani::cover!(o == 0 || !early_surprise || (!was_set && (col as u8) < o)); // a surprising zero is set
    kani::cover!(o >= 56 || (!was_set && (col as u8) >= o + 8)); // a surprising one is added
    kani::cover!(was_set);
    core::mem::forget(s);
}

macro_rules! light_windowed {
    ($name:ident, $o:expr, $sv:expr) => {
        #[kani::proof]
        #[kani::unwind(18)]
        #[kani::stub(CpcSketch::move_window, cut_move_window)]
        #[kani::stub(crate::cpc::pair_table::PairTable::rebuild, cut_rebuild)]
        fn $name() {
            light_windowed_case($o, $sv);
        }
    };
}

//@ family: light_windowed
//@ props: C05 C17
//@ tier: thorough
//@ timeout: 1800
//@ functions: cpc::sketch::CpcSketch::row_col_update
//@ functions: cpc::sketch::CpcSketch::update_windowed
//@ functions: cpc::sketch::CpcSketch::update_hip
//@ functions: cpc::pair_table::PairTable::maybe_insert
//@ functions: cpc::pair_table::PairTable::maybe_delete
//@ unwind: 18
//@ stubs: CpcSketch::move_window -> must-not-reach cut; PairTable::rebuild -> must-not-reach cut
//@ bounds: lg_k = 4, windowed state with a concrete window offset per instance (0, 3, 56), all 16 window bytes symbolic, and either no surprising value or one (symbolic row within a quarter of the rows, symbolic column outside the window) at a concrete slot of the 4-slot table; coupon count consistent with offset and flavor; one symbolic (row, col); steps that move the window excluded (assumed away, self-checking cut)
//@ assumes: representation invariant of a windowed sketch restricted to <= 1 surprising value (num_coupons = early-zone ones + window bits +/- the surprising value)
//@ desc: one update in each zone (early-zone inverted logic, window bit, late surprising value): num_coupons grows exactly when the (row, col) bit was not set, only the addressed window bit changes, the surprising-value table lists exactly the surprising values of the new matrix, the offset stays
light_windowed!(c05_windowed_update_light_offset_0, 0, None); //@ tier: quick
light_windowed!(c05_windowed_update_light_offset_0_one_surprise, 0, Some(2)); //@ tier: quick
light_windowed!(c05_windowed_update_light_offset_3_one_surprise, 3, Some(1)); //@ tier: quick
light_windowed!(c05_windowed_update_light_offset_56_one_surprise, 56, Some(3)); //@ tier: quick
//@ endfamily: x

// ---------------------------------------------------------------------------------------------
// The window-moving step (offset 0 -> 1) in a light form: 14 rows concrete, 2 rows symbolic
// ---------------------------------------------------------------------------------------------

//@ props: C05 C17
//@ tier: thorough
//@ timeout: 7200
//@ functions: cpc::sketch::CpcSketch::row_col_update
//@ functions: cpc::sketch::CpcSketch::update_windowed
//@ functions: cpc::sketch::CpcSketch::move_window
//@ functions: cpc::sketch::CpcSketch::build_bit_matrix
//@ functions: cpc::pair_table::PairTable::maybe_insert
//@ functions: cpc::pair_table::PairTable::clear
//@ bounds: lg_k = 4, Pinned sketch at window offset 0 with 53 coupons (one below the threshold 27K/8 = 54): 14 window rows concrete (6 full, 8 empty), rows 5 and 10 symbolic (their bit counts constrained so that the total is 53), no surprising value before the step; the 54th coupon is a symbolic novel bit of row 5 or 10 inside the window. Measured: no verdict within 20 min / 11 GB (move_window rebuilds the matrix into a heap vector, whose rows symbolic execution does not see as constants, so the surprising-value loop is unrolled for all 16 rows) - kept for larger machines
//@ desc: the update that crosses the threshold moves the window to offset 1: afterwards the sketch denotes the old matrix plus the new bit (window = columns 1..8, rows without bit 0 listed as surprising zeros, bit 8.. as surprising ones), num_coupons = 54, validate() holds, and first_interesting_column skips only full columns
#[kani::proof]
#[kani::unwind(18)]
fn c05_move_window_0_to_1_light() {
    // 6 rows full (48 bits), the symbolic rows 5 and 10 hold 5 bits together -> 53 coupons; the other rows
    // are empty (bit 0 unset: they become surprising zeros at offset 1)
    let mut window = [0u8; K];
    let full = [0usize, 1, 2, 3, 4, 6];
    let mut i = 0;
    while i < 6 {
        window[full[i]] = 0xFF;
        i += 1;
    }
    let wa: u8 = kani::any();
    let wb: u8 = kani::any();
    kani::assume(wa.count_ones() + wb.count_ones() == 5);
    window[5] = wa;
    window[10] = wb;
    let mut model = [0u64; K];
    let mut r = 0;
    while r < K {
        model[r] = window[r] as u64;
        r += 1;
    }
    let mut s = CpcSketch::new(4);
    s.sliding_window = window.to_vec();
    s.window_offset = 0;
    s.surprising_value_table = Some(vt::raw_table(2, &[u32::MAX; 4]));
    s.first_interesting_column = 0;
    s.kxp = 8.0;
    s.hip_est_accum = 100.0;
    let c0 = popcount_matrix(&model);
    assert!(c0 == 53);
    s.num_coupons = 53;
    // the 54th coupon: a novel window bit of row 5 or row 10
    let in_a: bool = kani::any();
    let col: u32 = kani::any();
    kani::assume(col < 8);
    let row: u32 = if in_a { 5 } else { 10 };
    kani::assume(model[row as usize] & (1u64 << col) == 0);
    s.row_col_update((row << 6) | col);
    model[row as usize] |= 1u64 << col;
    assert!(s.window_offset == 1, "the window did not move when the 54th coupon arrived");
    check_consistent(&s, &model);
    kani::cover!(wa & 1 == 0 && wb & 1 == 1);
    kani::cover!(col == 0);
    core::mem::forget(s);
}

// ---------------------------------------------------------------------------------------------
// The window-moving step in contract form (quick tier): move_window itself over an ARBITRARY matrix.
// build_bit_matrix (decided against spec_matrix by the step harnesses) is replaced by a function that
// returns an arbitrary symbolic matrix, PairTable::maybe_insert (decided by the pair-table harnesses) by
// a recorder, refresh_kxp (floats; not read by any C05 clause) by a no-op. What is decided is the
// re-encoding: new window bytes, the list of surprising values handed to the table, the new offset and
// first_interesting_column - together they must denote exactly the matrix that went in.
// The sketch is instantiated at lg_k = 2 (4 rows; the code is parametric in lg_k) so that the row loop
// and the surprising-value loop stay within a small unwind bound.
// ---------------------------------------------------------------------------------------------
const MR: usize = 4;
static mut MW_MATRIX: [u64; MR] = [0; MR];
static mut MW_REC: [u32; 16] = [0; 16];
static mut MW_REC_N: usize = 0;

pub(crate) fn mw_build_bit_matrix(_s: &CpcSketch) -> Vec<u64> {
    let mut v = Vec::new();
    let mut i = 0;
    while i < MR {
        v.push(unsafe { MW_MATRIX[i] });
        i += 1;
    }
    v
}
pub(crate) fn mw_maybe_insert(_t: &mut PairTable, item: u32) -> bool {
    unsafe {
        if MW_REC_N < 16 {
            MW_REC[MW_REC_N] = item;
        }
        MW_REC_N += 1;
    }
    true
}
pub(crate) fn mw_refresh_kxp(_s: &mut CpcSketch, _m: &[u64]) {}

fn move_window_contract_case(o: u8) {
    move_window_contract_case_n(o, 2)
}

fn move_window_contract_case_n(o: u8, max_per_row: u32) {
    let new = o + 1;
    let m: [u64; MR] = kani::any();
    let early: u64 = (1u64 << new) - 1;
    let winmask: u64 = 0xFFu64 << new;
    // bound: at most 2 surprising values per row (surprising zeros below the new offset, surprising ones
    // above the new window)
    let mut pats = [0u64; MR];
    let mut i = 0;
    while i < MR {
        pats[i] = (m[i] & !winmask) ^ early;
        kani::assume(pats[i].count_ones() <= max_per_row);
        i += 1;
    }
    unsafe {
        MW_MATRIX = m;
        MW_REC_N = 0;
    }
    let mut s = CpcSketch::new(4);
    s.lg_k = 2;
    s.sliding_window = [0u8; MR].to_vec();
    s.window_offset = o;
    // whatever the old table held is discarded by move_window: one arbitrary stale entry
    let stale: u32 = kani::any();
    kani::assume(stale < (4 << 6));
    s.surprising_value_table = Some(vt::raw_table(2, &[stale, u32::MAX, u32::MAX, u32::MAX]));
    s.first_interesting_column = kani::any();
    let c: u32 = kani::any();
    kani::assume(c <= 4 * 64);
    kani::assume(determine_correct_offset(2, c) == new);
    s.num_coupons = c;
    s.move_window();
    assert!(s.window_offset == new, "offset after move_window");
    assert!(s.num_coupons == c);
    assert!(s.sliding_window.len() == MR);
    let n = unsafe { MW_REC_N };
    assert!(n <= 4 * max_per_row as usize && n <= 16);
    assert!(vt::num_items_of(s.surprising_value_table()) == 0 || n > 0, "stale table content survived the move");
    // the recorded surprising values: strictly increasing (so distinct), each outside the new window
    let nrec = 4 * max_per_row as usize;
    let mut j = 0;
    while j < nrec {
        if j < n {
            let rc = unsafe { MW_REC[j] };
            let col = rc & 63;
            assert!((rc >> 6) < MR as u32);
            assert!(col < new as u32 || col >= new as u32 + 8, "a window column was listed as a surprising value");
            if j > 0 {
                assert!(unsafe { MW_REC[j - 1] } < rc, "a surprising value was handed to the table twice");
            }
        }
        j += 1;
    }
    // the new encoding denotes exactly the matrix that went in
    let mut ored = 0u64;
    let mut r = 0;
    while r < MR {
        let mut row = early | ((s.sliding_window[r] as u64) << new);
        let mut j = 0;
        while j < nrec {
            if j < n {
                let rc = unsafe { MW_REC[j] };
                if (rc >> 6) as usize == r {
                    row ^= 1u64 << (rc & 63);
                }
            }
            j += 1;
        }
        assert!(row == m[r], "window + surprising values after the move do not denote the old matrix");
        ored |= pats[r];
        r += 1;
    }
    // first_interesting_column: never beyond the new offset, skips only columns that are full in every row
    let fic = s.first_interesting_column as u32;
    assert!(fic <= new as u32, "first_interesting_column beyond the window offset: later window / late coupons would be dropped");
    let low = if fic == 0 { 0 } else { (1u64 << fic) - 1 };
    let mut r = 0;
    while r < MR {
        assert!(m[r] & low == low, "first_interesting_column skips a column that is not full");
        r += 1;
    }
    let want = if ored == 0 { new as u32 } else { core::cmp::min(new as u32, ored.trailing_zeros()) };
    assert!(fic == want, "first_interesting_column is not the lowest column with a surprising value (capped at the offset)");
    kani::cover!(n == 3);
    kani::cover!(new >= 56 || (ored != 0 && ored.trailing_zeros() > new as u32)); // only late surprising ones: the cap applies (no late zone at offset 56)
    kani::cover!(o == 0 || (ored != 0 && ored.trailing_zeros() < new as u32)); // a surprising zero
    core::mem::forget(s);
}

macro_rules! move_window_contract {
    ($name:ident, $o:expr) => {
        #[kani::proof]
        #[kani::unwind(10)]
        #[kani::stub(CpcSketch::build_bit_matrix, mw_build_bit_matrix)]
        #[kani::stub(CpcSketch::refresh_kxp, mw_refresh_kxp)]
        #[kani::stub(crate::cpc::pair_table::PairTable::maybe_insert, mw_maybe_insert)]
        fn $name() {
            move_window_contract_case($o);
        }
    };
}

//@ family: move_window_contract
//@ props: C05
//@ tier: quick
//@ timeout: 900
//@ functions: cpc::sketch::CpcSketch::move_window
//@ functions: cpc::pair_table::PairTable::clear
//@ functions: cpc::determine_correct_offset
//@ unwind: 10
//@ stubs: CpcSketch::build_bit_matrix -> returns an arbitrary symbolic 4-row matrix; PairTable::maybe_insert -> recorder (returns true); CpcSketch::refresh_kxp -> no-op
//@ replay_stub: cpc/sketch.rs | pub(super) fn build_bit_matrix(&self) -> Vec<u64> { | if true { return self::verif_kani_cpc_sketch::mw_build_bit_matrix(self); }
//@ replay_stub: cpc/sketch.rs | fn refresh_kxp(&mut self, bit_matrix: &[u64]) { | if true { return self::verif_kani_cpc_sketch::mw_refresh_kxp(self, bit_matrix); }
//@ replay_stub: cpc/pair_table.rs | pub fn maybe_insert(&mut self, item: u32) -> bool { | if true { return crate::cpc::sketch::verif_kani_cpc_sketch::mw_maybe_insert(self, item); }
//@ bounds: lg_k = 2 (4 rows x 64 columns; move_window is parametric in lg_k), old window offset concrete per instance (0, 7 = the refresh_kxp path, 30, 55 = the last move), the matrix returned by build_bit_matrix arbitrary with at most 2 surprising values per row after the move, a stale table entry and first_interesting_column arbitrary before the move, num_coupons any value for which the new offset is the correct one
//@ assumes: build_bit_matrix returns the matrix the sketch denotes (decided against spec_matrix by c05_windowed_step_* / c05_windowed_update_light_*); maybe_insert stores a novel item (decided by c05_pair_table_insert_step)
//@ desc: move_window re-encodes the matrix exactly: new offset = old + 1, window bytes = columns new..new+8, the surprising values handed to the cleared table are distinct, lie outside the window and, together with the all-ones early zone and the window, denote the matrix that went in; first_interesting_column = min(new offset, lowest column holding a surprising value), so it never exceeds the offset and only skips full columns; no debug assertion or overflow
move_window_contract!(c05_move_window_contract_0_to_1, 0);
move_window_contract!(c05_move_window_contract_7_to_8, 7);
move_window_contract!(c05_move_window_contract_30_to_31, 30);
move_window_contract!(c05_move_window_contract_55_to_56, 55);
//@ endfamily: x

macro_rules! move_window_contract_deep {
    ($name:ident, $o:expr, $n:expr) => {
        #[kani::proof]
        #[kani::unwind(18)]
        #[kani::stub(CpcSketch::build_bit_matrix, mw_build_bit_matrix)]
        #[kani::stub(CpcSketch::refresh_kxp, mw_refresh_kxp)]
        #[kani::stub(crate::cpc::pair_table::PairTable::maybe_insert, mw_maybe_insert)]
        fn $name() {
            let o: u8 = $o;
            kani::assume(o <= 55);
            move_window_contract_case_n(o, $n);
        }
    };
}

//@ family: move_window_contract_deep
//@ props: C05
//@ tier: thorough
//@ timeout: 3600
//@ functions: cpc::sketch::CpcSketch::move_window
//@ functions: cpc::pair_table::PairTable::clear
//@ functions: cpc::determine_correct_offset
//@ unwind: 18
//@ stubs: CpcSketch::build_bit_matrix -> returns an arbitrary symbolic 4-row matrix; PairTable::maybe_insert -> recorder (returns true); CpcSketch::refresh_kxp -> no-op
//@ replay_stub: cpc/sketch.rs | pub(super) fn build_bit_matrix(&self) -> Vec<u64> { | if true { return self::verif_kani_cpc_sketch::mw_build_bit_matrix(self); }
//@ replay_stub: cpc/sketch.rs | fn refresh_kxp(&mut self, bit_matrix: &[u64]) { | if true { return self::verif_kani_cpc_sketch::mw_refresh_kxp(self, bit_matrix); }
//@ replay_stub: cpc/pair_table.rs | pub fn maybe_insert(&mut self, item: u32) -> bool { | if true { return crate::cpc::sketch::verif_kani_cpc_sketch::mw_maybe_insert(self, item); }
//@ bounds: as c05_move_window_contract_* but deeper: the old window offset symbolic over 0..=55 (every move) with <= 2 surprising values per row, and concrete offsets 0 / 30 with <= 4 surprising values per row
//@ assumes: build_bit_matrix returns the matrix the sketch denotes; maybe_insert stores a novel item
//@ desc: move_window re-encodes the matrix exactly for every window offset (see c05_move_window_contract_*)
move_window_contract_deep!(c05_move_window_contract_any_offset, kani::any(), 2); //@ tier: quick
move_window_contract_deep!(c05_move_window_contract_0_to_1_four_per_row, 0, 4);
move_window_contract_deep!(c05_move_window_contract_30_to_31_four_per_row, 30, 4);
//@ endfamily: x

// ---------------------------------------------------------------------------------------------
// When is the window moved? update_windowed with move_window replaced by a recorder that only bumps the
// offset: the move must happen exactly on the update after which the offset prescribed by the coupon
// count (determine_correct_offset = floor((8C - 19K) / 8K)) changes - the other half of the composition
// with the contract harnesses above.
// ---------------------------------------------------------------------------------------------
static mut MW_MOVES: u32 = 0;
pub(crate) fn rec_move_window(s: &mut CpcSketch) {
    unsafe {
        MW_MOVES += 1;
    }
    s.window_offset += 1;
}

fn window_move_trigger_case(o: u8) {
    let window: [u8; K] = kani::any();
    let c0: u32 = 16 * (o as u32) + popcount_bytes(&window);
    kani::assume(32 * c0 >= 3 * 16);
    kani::assume(spec_offset(c0) == o);
    unsafe {
        MW_MOVES = 0;
    }
    let mut s = CpcSketch::new(4);
    s.sliding_window = window.to_vec();
    s.window_offset = o;
    s.surprising_value_table = Some(vt::raw_table(2, &[u32::MAX; 4]));
    s.first_interesting_column = 0;
    s.kxp = 8.0;
    s.hip_est_accum = 100.0;
    s.num_coupons = c0;
    let row: u32 = kani::any();
    let col: u32 = kani::any();
    kani::assume(row < 16 && col < 64);
    let in_window = (col as u8) >= o && (col as u8) < o + 8;
    let was_set = if in_window { window[row as usize] & (1u8 << (col as u8 - o)) != 0 } else { (col as u8) < o };
    s.row_col_update((row << 6) | col);
    let moves = unsafe { MW_MOVES };
    assert!(s.num_coupons == c0 + if was_set { 0 } else { 1 });
    assert!(moves <= 1);
    assert!(s.window_offset == o + moves as u8);
    assert!(s.window_offset == spec_offset(s.num_coupons), "the window offset does not follow the coupon count: move_window was called too early, too late or not at all");
    kani::cover!(moves == 1);
    kani::cover!(moves == 0 && !was_set);
    core::mem::forget(s);
}

macro_rules! window_move_trigger {
    ($name:ident, $o:expr) => {
        #[kani::proof]
        #[kani::unwind(18)]
        #[kani::stub(CpcSketch::move_window, rec_move_window)]
        #[kani::stub(crate::cpc::pair_table::PairTable::rebuild, cut_rebuild)]
        fn $name() {
            window_move_trigger_case($o);
        }
    };
}

//@ family: window_move_trigger
//@ props: C05
//@ tier: quick
//@ timeout: 900
//@ functions: cpc::sketch::CpcSketch::row_col_update
//@ functions: cpc::sketch::CpcSketch::update_windowed
//@ functions: cpc::sketch::CpcSketch::update_hip
//@ unwind: 18
//@ stubs: CpcSketch::move_window -> recorder (counts the call, offset += 1); PairTable::rebuild -> must-not-reach cut
//@ replay_stub: cpc/sketch.rs | fn move_window(&mut self) { | if true { return self::verif_kani_cpc_sketch::rec_move_window(self); }
//@ bounds: lg_k = 4, windowed state without surprising values, concrete window offset per instance (0, 3, 55), all 16 window bytes symbolic with a coupon count consistent with the offset; one symbolic (row, col)
//@ desc: after one update the window offset equals floor((8C - 19K) / 8K) of the new coupon count: move_window is called exactly once on the update that crosses the threshold and never otherwise; the debug assertions around the call hold
window_move_trigger!(c05_window_move_trigger_offset_0, 0);
window_move_trigger!(c05_window_move_trigger_offset_3, 3);
window_move_trigger!(c05_window_move_trigger_offset_55, 55);
//@ endfamily: x

// ---------------------------------------------------------------------------------------------
// Sparse -> windowed promotion, in the same two composed parts: (a) update_sparse promotes exactly when
// the flavor prescribed by the coupon count leaves Sparse (every lg_k; table insert = recorder with an
// arbitrary novelty answer, promotion = recorder, HIP update cut); (b) promote_sparse_to_windowed
// re-encodes an arbitrary 4-slot table exactly (lg_k = 4; table insert = recorder).
// ---------------------------------------------------------------------------------------------
static mut SP_NOVEL: bool = false;
static mut SP_PROMOTED: u32 = 0;
pub(crate) fn sp_maybe_insert(_t: &mut PairTable, _item: u32) -> bool {
    unsafe { SP_NOVEL }
}
pub(crate) fn sp_promote(_s: &mut CpcSketch) {
    unsafe {
        SP_PROMOTED += 1;
    }
}
pub(crate) fn sp_update_hip(_s: &mut CpcSketch, _rc: u32) {}

//@ props: C05
//@ tier: quick
//@ timeout: 600
//@ functions: cpc::sketch::CpcSketch::row_col_update
//@ functions: cpc::sketch::CpcSketch::update_sparse
//@ functions: cpc::determine_flavor
//@ stubs: PairTable::maybe_insert -> returns an arbitrary novelty answer; CpcSketch::promote_sparse_to_windowed -> recorder; CpcSketch::update_hip -> no-op
//@ replay_stub: cpc/pair_table.rs | pub fn maybe_insert(&mut self, item: u32) -> bool { | if true { return crate::cpc::sketch::verif_kani_cpc_sketch::sp_maybe_insert(self, item); }
//@ replay_stub: cpc/sketch.rs | fn promote_sparse_to_windowed(&mut self) { | if true { return self::verif_kani_cpc_sketch::sp_promote(self); }
//@ replay_stub: cpc/sketch.rs | fn update_hip(&mut self, row_col: u32) { | if true { return self::verif_kani_cpc_sketch::sp_update_hip(self, row_col); }
//@ bounds: every lg_k in 4..=26, every coupon count of the Empty / Sparse flavors (32C < 3K), either answer of the table (novel / duplicate), any (row, col)
//@ desc: one update of a Sparse (or Empty) sketch: num_coupons grows exactly when the table reports a novel pair, and the sketch is promoted to the windowed form exactly when determine_flavor of the new count is no longer Sparse - never earlier, never later; the debug assertion on entry holds
#[kani::proof]
#[kani::unwind(6)]
#[kani::stub(crate::cpc::pair_table::PairTable::maybe_insert, sp_maybe_insert)]
#[kani::stub(CpcSketch::promote_sparse_to_windowed, sp_promote)]
#[kani::stub(CpcSketch::update_hip, sp_update_hip)]
fn c05_sparse_promotion_trigger_every_lg_k() {
    let lg_k: u8 = kani::any();
    kani::assume(lg_k >= 4 && lg_k <= 26);
    let c: u32 = kani::any();
    kani::assume(32 * (c as u64) < 3 * (1u64 << lg_k));
    let novel: bool = kani::any();
    unsafe {
        SP_NOVEL = novel;
        SP_PROMOTED = 0;
    }
    let mut s = CpcSketch::new(4);
    s.lg_k = lg_k;
    s.num_coupons = c;
    s.surprising_value_table = Some(vt::raw_table(2, &[u32::MAX; 4]));
    let rc: u32 = kani::any();
    kani::assume((rc >> 6) < (1u32 << lg_k));
    s.row_col_update(rc);
    let c1 = c + if novel { 1 } else { 0 };
    assert!(s.num_coupons == c1, "num_coupons does not count the novel pairs");
    let left_sparse = !matches!(crate::cpc::determine_flavor(lg_k, c1), Flavor::Sparse | Flavor::Empty);
    let promoted = unsafe { SP_PROMOTED };
    assert!(promoted == if novel && left_sparse { 1 } else { 0 }, "promotion to the windowed form does not follow the flavor of the coupon count");
    kani::cover!(promoted == 1 && lg_k == 26);
    kani::cover!(promoted == 1 && lg_k == 4);
    kani::cover!(promoted == 0 && novel);
    core::mem::forget(s);
}

//@ props: C05
//@ tier: quick
//@ timeout: 900
//@ functions: cpc::sketch::CpcSketch::promote_sparse_to_windowed
//@ functions: cpc::pair_table::PairTable::new
//@ stubs: PairTable::maybe_insert -> recorder (returns true)
//@ replay_stub: cpc/pair_table.rs | pub fn maybe_insert(&mut self, item: u32) -> bool { | if true { return crate::cpc::sketch::verif_kani_cpc_sketch::mw_maybe_insert(self, item); }
//@ bounds: lg_k = 4, a 4-slot table holding 2..=4 arbitrary pairs (every row and column) at arbitrary slots, num_coupons = number of pairs
//@ assumes: maybe_insert stores a novel item (decided by c05_pair_table_insert_step)
//@ desc: promotion re-encodes the coupon set exactly: 16 window bytes = the pairs of columns 0..8, every pair of a column >= 8 is handed once to the fresh table, nothing else; window offset stays 0
#[kani::proof]
#[kani::unwind(18)]
#[kani::stub(crate::cpc::pair_table::PairTable::maybe_insert, mw_maybe_insert)]
fn c05_promote_sparse_contract() {
    let slots: [u32; 4] = kani::any();
    let mut n = 0u32;
    let mut i = 0;
    while i < 4 {
        kani::assume(slots[i] == u32::MAX || slots[i] < (16 << 6));
        if slots[i] != u32::MAX {
            n += 1;
        }
        i += 1;
    }
    kani::assume(n >= 2);
    unsafe {
        MW_REC_N = 0;
    }
    let mut s = CpcSketch::new(4);
    s.surprising_value_table = Some(vt::raw_table(2, &slots));
    s.num_coupons = n;
    s.promote_sparse_to_windowed();
    assert!(s.window_offset == 0 && s.num_coupons == n);
    assert!(s.sliding_window.len() == K, "window not sized to k rows");
    let mut want = [0u8; K];
    let mut late = 0usize;
    let mut i = 0;
    while i < 4 {
        if slots[i] != u32::MAX {
            let col = slots[i] & 63;
            if col < 8 {
                want[(slots[i] >> 6) as usize] |= 1u8 << col;
            } else {
                assert!(late < 4 && unsafe { MW_REC[late] } == slots[i], "a late pair was not handed to the new table (or in a different order / twice)");
                late += 1;
            }
        }
        i += 1;
    }
    assert!(unsafe { MW_REC_N } == late, "the new table received a pair that is not a late coupon");
    let mut r = 0;
    while r < K {
        assert!(s.sliding_window[r] == want[r], "window byte after promotion is not the early pairs of the row");
        r += 1;
    }
    assert!(vt::num_items_of(s.surprising_value_table()) == 0, "the old table was not replaced by a fresh one");
    kani::cover!(late == 4);
    kani::cover!(late == 0 && n == 2);
    core::mem::forget(s);
}

// ---------------------------------------------------------------------------------------------
// serialization at sketch level (Empty / Sparse / Hybrid), wrapper agreement, update() derivation
// ---------------------------------------------------------------------------------------------
use crate::verif_kani_common::stub_format;

fn rd_u16(b: &[u8], o: usize) -> u16 {
    (b[o] as u16) | ((b[o + 1] as u16) << 8)
}
fn rd_u32(b: &[u8], o: usize) -> u32 {
    (rd_u16(b, o) as u32) | ((rd_u16(b, o + 2) as u32) << 16)
}
fn rd_u64(b: &[u8], o: usize) -> u64 {
    (rd_u32(b, o) as u64) | ((rd_u32(b, o + 4) as u64) << 32)
}

fn cpc_roundtrip_case<const N: usize>(merged: bool) {
    let mut s = CpcSketch::new(4);
    let mut model = [0u64; K];
    let mut i = 0;
    while i < N {
        let row: u32 = kani::any();
        let col: u32 = kani::any();
        kani::assume(row < 16 && col < 64);
        // distinct coupons so that the flavor is known: N = 1 Sparse, N = 2..3 Hybrid
        kani::assume(model[row as usize] & (1u64 << col) == 0);
        s.row_col_update((row << 6) | col);
        model[row as usize] |= 1u64 << col;
        i += 1;
    }
    s.merge_flag = merged;
    let bytes = s.serialize();
    // ---- spec decoder: CPC preamble (Java/C++ CpcSketch layout)
    let has_hip = !merged;
    let pre_ints = if N == 0 { 2 } else { 2 + 1 + (if has_hip { 4 } else { 0 }) + 1 };
    assert!(bytes[0] == pre_ints, "preamble ints");
    assert!(bytes[1] == 1 && bytes[2] == 16, "serial version 1 / family 16");
    assert!(bytes[3] == 4, "lg_k");
    assert!(bytes[4] == s.first_interesting_column, "first interesting column");
    let flags = bytes[5];
    assert!(flags & 2 != 0, "compressed flag (bit 1)");
    assert!((flags & 4 != 0) == has_hip, "has-HIP flag (bit 2)");
    assert!((flags & 8 != 0) == (N > 0), "has-table flag (bit 3): Sparse and Hybrid images carry only a table");
    assert!(flags & 16 == 0, "has-window flag (bit 4) must be clear below the Pinned flavor");
    assert!(flags & 1 == 0 && flags & 0xe0 == 0, "reserved flag bits");
    assert!(rd_u16(&bytes, 6) == 0x93CC, "seed hash");
    if N == 0 {
        assert!(bytes.len() == 8, "empty image is 8 bytes");
    } else {
        assert!(rd_u32(&bytes, 8) == N as u32, "number of coupons");
        let words = rd_u32(&bytes, 12) as usize;
        let mut off = 16;
        if has_hip {
            assert!(rd_u64(&bytes, 16) == s.kxp.to_bits() && rd_u64(&bytes, 24) == s.hip_est_accum.to_bits(), "kxp / HIP accumulator");
            off = 32;
        }
        assert!(bytes.len() == off + 4 * words, "image length = preamble + compressed table words");
        assert!(bytes.len() == 4 * pre_ints as usize + 4 * words);
    }
    // ---- round trip
    let g = crate::verif_kani_common::expect_ok(CpcSketch::deserialize(&bytes), "own CPC image rejected");
    assert!(g.lg_k() == 4 && g.num_coupons() == N as u32, "lg_k / coupon count changed");
    assert!(g.merge_flag == merged && g.first_interesting_column == s.first_interesting_column);
    assert!(g.window_offset == 0);
    if has_hip {
        assert!(g.kxp.to_bits() == s.kxp.to_bits() && g.hip_est_accum.to_bits() == s.hip_est_accum.to_bits(), "HIP state changed");
    }
    let m = g.build_bit_matrix();
    let mut r = 0;
    while r < K {
        assert!(m[r] == model[r], "bit matrix changed in the round trip");
        r += 1;
    }
    assert!(g.validate());
    // CpcWrapper reads the same preamble independently
    let w = crate::verif_kani_common::expect_ok(crate::cpc::CpcWrapper::new(&bytes), "wrapper rejects the image");
    assert!(w.lg_k() == 4 && w.is_empty() == (N == 0));
    assert!(w.estimate().to_bits() == g.estimate().to_bits(), "wrapper estimate differs from the deserialized sketch");
    core::mem::forget((s, g, m, bytes, w));
}

macro_rules! cpc_roundtrip {
    ($name:ident, $n:expr, $merged:expr) => {
        #[kani::proof]
        #[kani::unwind(20)]
        #[kani::stub(alloc::fmt::format, stub_format)]
        #[kani::stub(<[u32]>::sort_unstable, crate::verif_kani_common::model_sort_unstable)]
        fn $name() {
            cpc_roundtrip_case::<$n>($merged);
            kani::cover!(true);
        }
    };
}

//@ family: cpc_roundtrip
//@ props: C11 C12 C05
//@ tier: thorough
//@ timeout: 2400
//@ functions: cpc::sketch::CpcSketch::serialize
//@ functions: cpc::sketch::CpcSketch::deserialize
//@ functions: cpc::sketch::CpcSketch::deserialize_with_seed
//@ functions: cpc::compression::CompressedState::compress
//@ functions: cpc::compression::CompressedState::uncompress
//@ functions: cpc::compression::CompressedState::compress_sparse_flavor
//@ functions: cpc::compression::CompressedState::compress_hybrid_flavor
//@ functions: cpc::compression::CompressedState::uncompress_sparse_flavor
//@ functions: cpc::compression::CompressedState::uncompress_hybrid_flavor
//@ functions: cpc::pair_table::PairTable::from_slots
//@ functions: cpc::serialization::make_preamble_ints
//@ functions: cpc::wrapper::CpcWrapper::new
//@ functions: cpc::wrapper::CpcWrapper::estimate
//@ unwind: 20
//@ stubs: sort_unstable -> reference model
//@ bounds: lg_k = 4 sketches built from 0 (Empty), 1 (Sparse) or 2 (Hybrid) distinct symbolic (row, col) coupons, with HIP state or marked merged
//@ desc: serialize() writes the CPC preamble of the Java/C++ layout (preInts, serVer 1, family 16, lgK, fiCol, flags compressed|hip|table|window, seed hash, numCoupons, table words, kxp / HIP accumulator) as read by an independent decoder; deserialize restores the same bit matrix, coupon count, HIP state and flags; CpcWrapper agrees with the full deserialization
cpc_roundtrip!(c11_cpc_roundtrip_empty, 0, false);
cpc_roundtrip!(c11_cpc_roundtrip_sparse, 1, false);
cpc_roundtrip!(c11_cpc_roundtrip_sparse_merged, 1, true);
cpc_roundtrip!(c11_cpc_roundtrip_hybrid, 2, false);
//@ endfamily: x

//@ props: C05 C16
//@ tier: quick
//@ timeout: 900
//@ functions: cpc::sketch::CpcSketch::update
//@ functions: cpc::sketch::CpcSketch::update_f64
//@ bounds: lg_k = 4 and 12, items 1u64, 42u64, u64::MAX (concrete; hash constant-folded); reference = /verif's MurmurHash3 transcription
//@ desc: update(item) offers the coupon row = h1 & (k-1), column = min(63, leading zeros of h2) of the reference digest of the item's hashed bytes
#[kani::proof]
#[kani::unwind(20)]
fn c05_update_row_col_reference() {
    let items = [1u64, 42u64, u64::MAX];
    let lgs = [4u8, 12u8];
    let mut j = 0;
    while j < 2 {
        let mut i = 0;
        while i < 3 {
            let (h1, h2) = crate::verif_kani_common::refhash::murmur3_x64_128(&items[i].to_le_bytes(), 8, 9001);
            let lz = h2.leading_zeros();
            let col = if lz > 63 { 63 } else { lz };
            let row = (h1 & ((1u64 << lgs[j]) - 1)) as u32;
            let mut s = CpcSketch::new(lgs[j]);
            s.update(items[i]);
            assert!(s.num_coupons() == 1);
            let m = s.build_bit_matrix();
            assert!(m[row as usize] == 1u64 << col, "update() set a different (row, col) than the reference derivation");
            core::mem::forget((s, m));
            i += 1;
        }
        j += 1;
    }
    kani::cover!(true);
}
