//@@ attach: theta/hash_table.rs
// ThetaHashTable instantiated at nominal size 4 (lg_nom = 2, table of 4 or 8 slots): the table code is
// parametric in its sizes; the public minimum lg_k = 5 only changes the constants. Hash values are
// symbolic arguments of try_insert (the real hash is tied to them by c04_hash_and_screen / C16).
use super::*;
use crate::verif_kani_common::model_select_nth;

pub(crate) fn raw_table(lg_cur: u8, theta: u64, entries: &[u64]) -> ThetaHashTable {
    raw_table_nom(2, lg_cur, theta, entries)
}

pub(crate) fn raw_table_nom(lg_nom: u8, lg_cur: u8, theta: u64, entries: &[u64]) -> ThetaHashTable {
    let mut n = 0;
    let mut i = 0;
    while i < entries.len() {
        if entries[i] != 0 {
            n += 1;
        }
        i += 1;
    }
    // built through new() and field assignment (no struct literal) so that the harness does not depend
    // on the exact field list of the table
    let mut t = ThetaHashTable::new(5, ResizeFactor::X2, 1.0, crate::hash::DEFAULT_UPDATE_SEED);
    t.lg_cur_size = lg_cur;
    t.lg_nom_size = lg_nom;
    t.lg_max_size = lg_nom + 1;
    if n > 0 {
        // a table that retains hashes has been offered data
        let _ = t.hash_and_screen(1u64);
    }
    t.theta = theta;
    t.entries = entries.to_vec();
    t.num_entries = n;
    t
}

/// every non-zero entry is below theta, entries are distinct
fn entries_valid(e: &[u64], theta: u64) -> bool {
    let mut i = 0;
    while i < e.len() {
        if e[i] != 0 {
            if e[i] >= theta {
                return false;
            }
            let mut j = i + 1;
            while j < e.len() {
                if e[j] == e[i] {
                    return false;
                }
                j += 1;
            }
        }
        i += 1;
    }
    true
}

/// specification of the probe sequence: start at key mod size, step by the odd stride
/// 2*((key >> lg_size) & 127) + 1
fn spec_probe(key: u64, lg: u8, step: usize) -> usize {
    let size = 1usize << lg;
    let stride = (2 * ((key >> lg) & 127) + 1) as usize;
    (((key as usize) & (size - 1)) + step * stride) & (size - 1)
}

/// local probing invariant for `key`: if it is stored at step s of its probe path, no earlier slot of
/// the path is empty (so a probe finds it before giving up at an empty slot)
fn findable_or_absent(e: &[u64], key: u64, lg: u8) -> bool {
    let size = 1usize << lg;
    let mut s = 0;
    let mut seen_empty = false;
    while s < size {
        let p = e[spec_probe(key, lg, s)];
        if p == key && seen_empty {
            return false;
        }
        if p == 0 {
            seen_empty = true;
        }
        s += 1;
    }
    true
}

/// cut: the harness's assumptions exclude this path; reaching it fails the harness
fn must_not_reach(_t: &mut ThetaHashTable) {
    panic!("verif cut: path assumed unreachable was reached");
}

fn contains(e: &[u64], key: u64) -> bool {
    let mut i = 0;
    while i < e.len() {
        if e[i] == key {
            return true;
        }
        i += 1;
    }
    false
}

fn count_nonzero(e: &[u64]) -> usize {
    let mut n = 0;
    let mut i = 0;
    while i < e.len() {
        if e[i] != 0 {
            n += 1;
        }
        i += 1;
    }
    n
}

//@ props: C04 C17
//@ tier: quick
//@ timeout: 600
//@ functions: theta::ThetaHashTable::find_in_entries
//@ functions: theta::ThetaHashTable::get_stride
//@ bounds: tables of 8 slots with every content, every key (u64, non-zero)
//@ desc: find_in_entries follows the specified odd-stride probe path: it returns the first slot on the path that is empty or holds the key, and None only if the path (which visits all 8 slots) has neither
#[kani::proof]
#[kani::unwind(10)]
fn c04_find_in_entries_spec() {
    let e: [u64; 8] = kani::any();
    let key: u64 = kani::any();
    kani::assume(key != 0);
    let got = ThetaHashTable::find_in_entries(&e, key, 3);
    // the stride is odd, hence the path is a permutation of the slots
    let mut visited = [false; 8];
    let mut s = 0;
    let mut first: Option<usize> = None;
    while s < 8 {
        let idx = spec_probe(key, 3, s);
        assert!(!visited[idx], "probe path revisits a slot before covering the table");
        visited[idx] = true;
        if first.is_none() && (e[idx] == 0 || e[idx] == key) {
            first = Some(idx);
        }
        s += 1;
    }
    assert!(got == first, "find_in_entries differs from the specified probe sequence");
    kani::cover!(got.is_none());
    kani::cover!(got.is_some() && e[got.unwrap()] == key && got.unwrap() != (key as usize & 7));
}

//@ props: C04 C17 C18
//@ tier: quick
//@ timeout: 900
//@ functions: theta::ThetaHashTable::try_insert
//@ functions: theta::ThetaHashTable::get_capacity
//@ bounds: lg_nom = 2 (k = 4), rebuild-mode table of 8 slots holding <= 6 entries (so the insert neither resizes nor rebuilds), every content satisfying the invariant, every theta, every offered hash in 1..theta
//@ assumes: table invariant: entries distinct, non-zero entries < theta, num_entries = number of non-zero slots; local probing invariant for the offered hash
//@ desc: try_insert(h) without rebuild: retained' = retained + {h}, duplicates ignored (returns false, nothing changes), theta unchanged, every other slot unchanged, count exact
#[kani::proof]
#[kani::unwind(10)]
#[kani::stub(ThetaHashTable::rebuild, must_not_reach)]
#[kani::stub(ThetaHashTable::resize, must_not_reach)]
fn c04_try_insert_step() {
    let e: [u64; 8] = kani::any();
    let theta: u64 = kani::any();
    kani::assume(theta >= 1 && theta <= MAX_THETA);
    kani::assume(entries_valid(&e, theta));
    let n0 = count_nonzero(&e);
    kani::assume(n0 <= 6);
    let h: u64 = kani::any();
    kani::assume(h != 0 && h < theta);
    kani::assume(findable_or_absent(&e, h, 3));
    let mut t = raw_table(3, theta, &e);
    let was = contains(&e, h);
    let inserted = t.try_insert(h);
    assert!(inserted == !was, "try_insert return value is not 'was new'");
    assert!(t.theta == theta, "theta changed without a rebuild");
    assert!(t.entries.len() == 8 && t.lg_cur_size == 3);
    assert!(contains(&t.entries, h), "offered hash below theta is not retained");
    assert!(t.num_entries == n0 + if was { 0 } else { 1 });
    assert!(t.num_entries == count_nonzero(&t.entries), "num_entries != number of retained hashes");
    // every old entry is still there, in place; exactly one slot changed when new
    let mut changed = 0;
    let mut i = 0;
    while i < 8 {
        if t.entries[i] != e[i] {
            changed += 1;
            assert!(e[i] == 0 && t.entries[i] == h);
        }
        i += 1;
    }
    assert!(changed == if was { 0 } else { 1 });
    assert!(entries_valid(&t.entries, theta));
    assert!(findable_or_absent(&t.entries, h, 3));
    assert!(!t.try_insert(0), "hash 0 (reserved) must be ignored");
    kani::cover!(was);
    kani::cover!(!was && n0 == 6);
    core::mem::forget(t);
}

//@ props: C04 C17 C18
//@ tier: quick
//@ timeout: 1500
//@ functions: theta::ThetaHashTable::try_insert
//@ functions: theta::ThetaHashTable::rebuild
//@ bounds: lg_nom = 1 (k = 2): rebuild-mode table of 4 slots holding exactly 3 distinct entries, every content and theta; the 4th distinct hash triggers rebuild (num_entries 4 > capacity 3). std's select_nth_unstable is replaced by a reference insertion-sort model of its contract (std's introselect does not get through symbolic execution)
//@ assumes: table invariant as in c04_try_insert_step
//@ desc: the insert that overflows the table rebuilds it: theta' = the (k+1)-th smallest of the hashes, retained' = exactly the k smallest = {e : e < theta'}, theta' <= theta (never increases), count = k, every retained hash findable
#[kani::proof]
#[kani::unwind(10)]
#[kani::stub(ThetaHashTable::resize, must_not_reach)]
#[kani::stub(<[u64]>::select_nth_unstable, model_select_nth)]
fn c04_rebuild_step() {
    let e: [u64; 4] = kani::any();
    let theta: u64 = kani::any();
    kani::assume(theta >= 1 && theta <= MAX_THETA);
    kani::assume(entries_valid(&e, theta));
    kani::assume(count_nonzero(&e) == 3);
    let h: u64 = kani::any();
    kani::assume(h != 0 && h < theta && !contains(&e, h));
    let mut t = raw_table_nom(1, 2, theta, &e);
    assert!(t.try_insert(h));
    let mut all = e;
    let mut i = 0;
    while i < 4 {
        if all[i] == 0 {
            all[i] = h;
        }
        i += 1;
    }
    let new_theta = t.theta;
    assert!(new_theta <= theta, "theta increased");
    assert!(contains(&all, new_theta), "new theta is not one of the offered hashes");
    let mut below = 0;
    let mut i = 0;
    while i < 4 {
        if all[i] < new_theta {
            below += 1;
            assert!(contains(&t.entries, all[i]), "a hash below the new theta was dropped");
            assert!(findable_or_absent(&t.entries, all[i], 2));
        } else {
            assert!(!contains(&t.entries, all[i]), "a hash >= theta is still retained");
        }
        i += 1;
    }
    assert!(below == 2, "new theta is not the (k+1)-th smallest hash");
    assert!(t.num_entries == 2 && count_nonzero(&t.entries) == 2);
    assert!(t.entries.len() == 4);
    kani::cover!(true);
    core::mem::forget(t);
}

//@ props: C04 C17
//@ tier: quick
//@ timeout: 900
//@ functions: theta::ThetaHashTable::try_insert
//@ functions: theta::ThetaHashTable::resize
//@ bounds: lg_nom = 2: resize-mode table of 4 slots (lg_cur = 2 <= lg_nom) holding 2 entries; the third insert exceeds capacity 2 and resizes to 8 slots (factor X2 capped at lg_max = 3)
//@ assumes: table invariant as in c04_try_insert_step
//@ desc: resize keeps exactly the same retained set and theta, doubles the table, and every retained hash is findable in the new table
#[kani::proof]
#[kani::unwind(10)]
#[kani::stub(ThetaHashTable::rebuild, must_not_reach)]
fn c04_resize_step() {
    let e: [u64; 4] = kani::any();
    let theta: u64 = kani::any();
    kani::assume(theta >= 1 && theta <= MAX_THETA);
    kani::assume(entries_valid(&e, theta));
    kani::assume(count_nonzero(&e) == 2);
    let h: u64 = kani::any();
    kani::assume(h != 0 && h < theta && !contains(&e, h));
    kani::assume(findable_or_absent(&e, h, 2));
    let mut t = raw_table(2, theta, &e);
    assert!(t.try_insert(h));
    assert!(t.lg_cur_size == 3 && t.entries.len() == 8, "table did not grow to the next size");
    assert!(t.theta == theta);
    assert!(t.num_entries == 3 && count_nonzero(&t.entries) == 3);
    assert!(contains(&t.entries, h) && findable_or_absent(&t.entries, h, 3));
    let mut i = 0;
    while i < 4 {
        if e[i] != 0 {
            assert!(contains(&t.entries, e[i]), "entry lost by resize");
            assert!(findable_or_absent(&t.entries, e[i], 3));
        }
        i += 1;
    }
    kani::cover!(true);
    core::mem::forget(t);
}

//@ props: C04 C17 C18
//@ tier: quick
//@ timeout: 1500
//@ functions: theta::ThetaHashTable::trim
//@ functions: theta::ThetaHashTable::reset
//@ functions: theta::ThetaHashTable::rebuild
//@ bounds: lg_nom = 1 (k = 2), table of 4 slots holding 0..=3 entries, every content / theta
//@ assumes: table invariant
//@ desc: trim() leaves exactly the k smallest hashes (nothing changes when <= k are retained) with theta' = (k+1)-th smallest; reset() restores the initial state (no entries, theta = initial theta, initial table size)
#[kani::proof]
#[kani::unwind(34)]
#[kani::stub(<[u64]>::select_nth_unstable, model_select_nth)]
fn c04_trim_reset() {
    let e: [u64; 4] = kani::any();
    let theta: u64 = kani::any();
    kani::assume(theta >= 1 && theta <= MAX_THETA);
    kani::assume(entries_valid(&e, theta));
    let n0 = count_nonzero(&e);
    kani::assume(n0 <= 3);
    let mut t = raw_table_nom(1, 2, theta, &e);
    t.trim();
    if n0 <= 2 {
        assert!(t.theta == theta && t.num_entries == n0);
        let mut i = 0;
        while i < 4 {
            assert!(t.entries[i] == e[i]);
            i += 1;
        }
    } else {
        assert!(t.num_entries == 2 && count_nonzero(&t.entries) == 2, "trim did not leave k entries");
        assert!(t.theta <= theta && contains(&e, t.theta));
        let mut i = 0;
        while i < 4 {
            if e[i] != 0 {
                assert!(contains(&t.entries, e[i]) == (e[i] < t.theta), "trim kept a wrong set");
            }
            i += 1;
        }
    }
    t.reset();
    assert!(t.num_entries == 0 && count_nonzero(&t.entries) == 0 && t.is_empty());
    assert!(t.theta == MAX_THETA, "reset did not restore theta");
    assert!(t.lg_cur_size == MIN_LG_K && t.entries.len() == 1 << MIN_LG_K);
    kani::cover!(n0 == 3);
    kani::cover!(n0 == 1);
    core::mem::forget(t);
}

fn reset_case<const N: usize>(lg_cur: u8) {
    let e: [u64; N] = kani::any();
    let theta: u64 = kani::any();
    kani::assume(theta >= 1 && theta <= MAX_THETA);
    // lg_nom = 5 with resize factor X2: initial size 2^5, maximum size 2^6
    let mut t = raw_table_nom(5, lg_cur, theta, &e);
    t.reset();
    assert!(t.entries.len() == 32 && t.lg_cur_size == 5, "reset did not restore the initial table size");
    let mut i = 0;
    while i < 32 {
        assert!(t.entries[i] == 0, "a hash survived reset()");
        i += 1;
    }
    assert!(t.num_entries == 0 && t.is_empty() && t.theta == MAX_THETA);
    kani::cover!(e[0] != 0 && e[N - 1] != 0);
    core::mem::forget(t);
}

//@ props: C04
//@ tier: quick
//@ timeout: 600
//@ functions: theta::ThetaHashTable::reset
//@ functions: theta::starting_sub_multiple
//@ bounds: lg_nom = 5 (the public minimum), resize factor X2: a table at its initial size (32 slots) and a grown table (64 slots), every slot content and theta arbitrary (no invariant assumed: reset must clear whatever is there)
//@ desc: reset() restores the initial state whatever the table held and whether or not it had grown: 32 zero slots, no entries, theta = initial theta, empty flag set
#[kani::proof]
#[kani::unwind(66)]
fn c04_reset_step() {
    reset_case::<32>(5);
    reset_case::<64>(6);
}

//@ props: C04 C17 C18
//@ tier: quick
//@ timeout: 300
//@ functions: theta::starting_sub_multiple
//@ functions: theta::ThetaHashTable::get_capacity
//@ bounds: every lg_target in 6..=27, lg_min = 5, every resize factor; capacity for every lg_cur in 5..=27 in both modes
//@ desc: starting size is >= lg_min, <= lg_target and reaches lg_target in whole resize steps; capacity is exactly floor(size/2) below nominal size and floor(15/16 size) at maximum size, so num_entries <= 15/16 * 2k always leaves an empty slot
#[kani::proof]
fn c04_size_arithmetic() {
    let lg_target: u8 = kani::any();
    kani::assume(lg_target >= 6 && lg_target <= 27);
    let rf: u8 = kani::any();
    kani::assume(rf <= 3);
    let r = starting_sub_multiple(lg_target, MIN_LG_K, rf);
    assert!(r >= MIN_LG_K && r <= lg_target);
    if rf > 0 {
        assert!((lg_target - r) % rf == 0);
    } else {
        assert!(r == lg_target);
    }
    let lg_cur: u8 = kani::any();
    let lg_nom: u8 = kani::any();
    kani::assume(lg_nom >= 5 && lg_nom <= 26 && lg_cur >= 5 && lg_cur <= lg_nom + 1);
    let size: usize = 1usize << lg_cur;
    let frac = if lg_cur <= lg_nom { RESIZE_THRESHOLD } else { REBUILD_THRESHOLD };
    let cap = (frac * size as f64) as usize;
    if lg_cur <= lg_nom {
        assert!(cap == size / 2);
    } else {
        assert!(cap == size / 16 * 15);
        assert!(cap + 1 < size, "a full table would make the probe loop give up");
        assert!(cap >= (1usize << lg_nom), "rebuild could be asked for more than it has");
    }
    kani::cover!(lg_cur == 27);
}

//@ props: C04 C16
//@ tier: quick
//@ timeout: 600
//@ functions: theta::ThetaHashTable::hash_and_screen
//@ bounds: items 1u64, 42u64 and the string-like byte pair (concrete, constant-folded hash); seed 9001; theta symbolic over its whole range
//@ desc: hash_and_screen returns h1(MurmurHash3(item, seed)) >> 1 when that is < theta and 0 otherwise (reference = /verif's MurmurHash3 transcription)
#[kani::proof]
#[kani::unwind(20)]
fn c04_hash_and_screen() {
    let theta: u64 = kani::any();
    kani::assume(theta >= 1 && theta <= MAX_THETA);
    let mut t = raw_table(3, theta, &[0u64; 8]);
    let items = [1u64, 42u64, 0xffff_ffff_ffff_fff1u64];
    let mut i = 0;
    while i < 3 {
        let (h1, _) = crate::verif_kani_common::refhash::murmur3_x64_128(&items[i].to_le_bytes(), 8, 9001);
        let want = if (h1 >> 1) < theta { h1 >> 1 } else { 0 };
        let got = t.hash_and_screen(items[i]);
        assert!(got == want, "hash_and_screen differs from (h1 >> 1) screened by theta");
        i += 1;
    }
    kani::cover!(t.hash_and_screen(1u64) == 0);
    kani::cover!(t.hash_and_screen(1u64) != 0);
    core::mem::forget(t);
}
