//@@ attach: hll/array6.rs
//@@ needs: hll_estimator.rs
// Array6: 6-bit packed registers. State at lg_k = 4 (13 bytes); index arithmetic for every lg_k <= 21.
use super::*;

pub(crate) fn num_zeros_of(a: &Array6) -> u32 {
    a.num_zeros
}
pub(crate) fn estimator_of(a: &Array6) -> &HipEstimator {
    &a.estimator
}
use crate::hll::estimator::verif_kani_hll_estimator as ve;
use crate::hll::estimator::verif_kani_hll_estimator::rec_update;
use crate::hll::pack_coupon;

pub(crate) fn raw_array6(lg_k: u8, bytes: &[u8], num_zeros: u32, est: HipEstimator) -> Array6 {
    Array6 { lg_config_k: lg_k, bytes: bytes.to_vec().into_boxed_slice(), num_zeros, estimator: est }
}

pub(crate) fn array6_from_regs(lg_k: u8, regs: &[u8], est: HipEstimator) -> Array6 {
    let mut a = Array6::new(lg_k);
    let mut z = 0u32;
    let mut i = 0;
    while i < regs.len() {
        a.put_raw(i as u32, regs[i]);
        if regs[i] == 0 {
            z += 1;
        }
        i += 1;
    }
    a.num_zeros = z;
    a.estimator = est;
    a
}

/// specification of the packing: register s occupies bits 6s..6s+5 of the little-endian bit stream
pub(crate) fn spec_get6(bytes: &[u8], s: usize) -> u8 {
    let mut v = 0u8;
    let mut b = 0;
    while b < 6 {
        let bit = 6 * s + b;
        let x = (bytes[bit / 8] >> (bit % 8)) & 1;
        v |= x << b;
        b += 1;
    }
    v
}

//@ props: C02 C17
//@ tier: quick
//@ timeout: 900
//@ functions: hll::array6::Array6::update
//@ functions: hll::array6::Array6::get_raw
//@ functions: hll::array6::Array6::put_raw
//@ bounds: lg_k = 4: all 13 register bytes arbitrary (last byte is padding), every coupon (26-bit slot field, value 1..=63)
//@ assumes: num_zeros = number of zero registers
//@ replay_stub: hll/estimator.rs | pub fn update(&mut self, lg_config_k: u8, old_value: u8, new_value: u8) { | return self::verif_kani_hll_estimator::rec_update(self, lg_config_k, old_value, new_value);
//@ desc: one Array6::update: the addressed 6-bit register becomes max(old, value) in the LSB-first packed layout, all 15 other registers unchanged, num_zeros tracks zero count, estimator notified exactly when the register grows
#[kani::proof]
#[kani::unwind(18)]
#[kani::stub(crate::hll::estimator::HipEstimator::update, rec_update)]
fn c02_array6_update_step() {
    let bytes: [u8; 13] = kani::any();
    let mut z0 = 0u32;
    let mut i = 0;
    while i < 16 {
        if spec_get6(&bytes, i) == 0 {
            z0 += 1;
        }
        i += 1;
    }
    let mut a = raw_array6(4, &bytes, z0, ve::raw_estimator(0.0, 16.0, 0.0, false));
    let slot26: u32 = kani::any();
    kani::assume(slot26 < (1 << 26));
    let value: u8 = kani::any();
    kani::assume(value >= 1 && value <= 63);
    ve::rec_reset();
    a.update(pack_coupon(slot26, value));
    let s = (slot26 & 15) as usize;
    let old = spec_get6(&bytes, s);
    let mut zeros = 0;
    let mut i = 0;
    while i < 16 {
        let want = if i == s && value > old { value } else { spec_get6(&bytes, i) };
        assert!(spec_get6(&a.bytes, i) == want, "packed register differs from the per-slot maximum");
        assert!(a.get(i as u32) == want, "get() disagrees with the packed layout");
        if want == 0 {
            zeros += 1;
        }
        i += 1;
    }
    assert!(a.num_zeros == zeros, "num_zeros does not track the zero registers");
    if value > old {
        assert!(ve::rec_count() == 1 && ve::rec_get(0) == (4, old, value));
    } else {
        assert!(ve::rec_count() == 0);
    }
    kani::cover!(value > old && s == 15);
    kani::cover!(value > old && s == 5 && old > 0);
    core::mem::forget(a);
}

//@ props: C02 C17 C18
//@ tier: quick
//@ timeout: 300
//@ functions: hll::array6::num_bytes_for_k
//@ bounds: every lg_k in 4..=21, every slot < 2^lg_k
//@ desc: the 16-bit window used by get_raw/put_raw for any slot lies inside the byte array (byte_idx + 1 < num_bytes), the array size is 3k/4+1, and the shift keeps the 6 bits inside the window
#[kani::proof]
fn c02_array6_index_arithmetic() {
    let lg_k: u8 = kani::any();
    kani::assume(lg_k >= 4 && lg_k <= 21);
    let k: u32 = 1 << lg_k;
    let n = num_bytes_for_k(k);
    assert!(n == (3 * (k as usize)) / 4 + 1);
    let slot: u32 = kani::any();
    kani::assume(slot < k);
    let start_bit = slot * 6;
    let byte_idx = (start_bit >> 3) as usize;
    let shift = start_bit & 7;
    assert!(byte_idx + 1 < n, "two-byte window runs past the register array");
    assert!(shift + 6 <= 16);
    kani::cover!(slot == k - 1 && lg_k == 21);
}
