//@@ attach: theta/sketch.rs
//@@ needs: theta_hash_table.rs
// ThetaSketch / CompactThetaSketch: compact(), estimate, emptiness, bounds ordering; compact theta
// serialization v3 / v4 round trip + layout, foreign versions 1-2, arbitrary bytes.
use super::*;
use crate::theta::hash_table::verif_kani_theta_hash_table::raw_table_nom;
use crate::verif_kani_common::stub_format;

fn sketch_from(entries: &[u64; 4], theta: u64) -> ThetaSketch {
    ThetaSketch { table: raw_table_nom(1, 2, theta, entries) }
}

fn valid_entries(e: &[u64; 4], theta: u64) -> bool {
    let mut i = 0;
    while i < 4 {
        if e[i] != 0 {
            if e[i] >= theta {
                return false;
            }
            let mut j = i + 1;
            while j < 4 {
                if e[j] == e[i] {
                    return false;
                }
                j += 1;
            }
        }
        i += 1;
    }
    true
}

fn has(v: &[u64], x: u64) -> bool {
    let mut i = 0;
    while i < v.len() {
        if v[i] == x {
            return true;
        }
        i += 1;
    }
    false
}

//@ props: C04 C17
//@ tier: quick
//@ timeout: 900
//@ functions: theta::ThetaSketch::compact
//@ functions: theta::ThetaSketch::estimate
//@ functions: theta::ThetaSketch::is_empty
//@ functions: theta::CompactThetaSketch::estimate
//@ bounds: update sketches whose table (4 slots) holds 0..=3 hashes, every theta, both ordered flags
//@ assumes: retained hashes are distinct, non-zero and below theta
//@ desc: compact(ordered) describes the same set: same entries, same emptiness, same estimate, same theta for non-empty sketches (MAX for empty ones), sorted ascending when ordered is requested (always for empty and exact single-item sketches); estimate = number retained exactly while theta is at its initial value
#[kani::proof]
#[kani::unwind(8)]
#[kani::stub(<[u64]>::sort_unstable, crate::verif_kani_common::model_sort_unstable)]
fn c04_compact_describes_same_set() {
    let e: [u64; 4] = kani::any();
    let theta: u64 = kani::any();
    kani::assume(theta >= 1 && theta <= MAX_THETA);
    kani::assume(valid_entries(&e, theta));
    let s = sketch_from(&e, theta);
    let n = s.num_retained();
    kani::assume(n <= 3 && n >= 1);
    let ordered: bool = kani::any();
    let c = s.compact(ordered);
    assert!(c.num_retained() == n);
    assert!(c.is_empty() == s.is_empty(), "compact changes emptiness");
    assert!(c.theta64() == theta, "compact changes theta of a non-empty sketch");
    let mut i = 0;
    while i < 4 {
        if e[i] != 0 {
            assert!(has(&c.entries, e[i]), "retained hash missing from the compact sketch");
        }
        i += 1;
    }
    let forced = n == 1 && theta == MAX_THETA;
    assert!(c.is_ordered() == (ordered || forced), "ordered flag");
    if c.is_ordered() {
        let mut i = 1;
        while i < c.entries.len() {
            assert!(c.entries[i - 1] < c.entries[i], "ordered compact sketch is not sorted");
            i += 1;
        }
    }
    // (estimates are compared in exact mode only: with a symbolic theta the two float divisions
    // n / (theta / MAX) do not decide in 15 min; both sides read the same two integers checked above)
    if theta == MAX_THETA {
        assert!(s.estimate() == n as f64, "exact mode must report exactly the distinct count");
        assert!(c.estimate() == n as f64, "compact estimate differs in exact mode");
        assert!(!s.is_estimation_mode() && !c.is_estimation_mode());
    } else {
        assert!(s.is_estimation_mode() && c.is_estimation_mode());
    }
    kani::cover!(n == 3 && ordered);
    kani::cover!(forced && !ordered);
    core::mem::forget((s, c));
}

/// Over-approximation of unpack_bits_block for the no-panic claim: fails exactly where the real function
/// panics (its three assertions, and the out-of-bounds read of a block shorter than `bits` bytes) and
/// otherwise returns arbitrary values. (The 63-way dispatch with a symbolic width exhausts 14 GB; the
/// real unpackers are verified per width by c11_pack_bits_NN.)
fn model_unpack_block(values: &mut [u64], bytes: &[u8], bits: u8) {
    assert!(values.len() == 8, "values length must be 8");
    assert!(bits >= 1 && bits <= 63, "wrong number of bits in unpack_bits_block8");
    assert!(bytes.len() < bits as usize * 8, "input buffer too small");
    assert!(bytes.len() >= bits as usize, "block shorter than the bit width (out-of-bounds read)");
    let mut i = 0;
    while i < 8 {
        values[i] = kani::any();
        i += 1;
    }
}

fn cut_try_insert(_t: &mut ThetaHashTable, _hash: u64) -> bool {
    panic!("verif cut: try_insert reached although the hash was assumed to be screened out");
}

fn stub_approx_lb(_n: u64, _theta: f64, _s: NumStdDev) -> f64 {
    kani::any()
}
fn stub_approx_ub(_n: u64, _theta: f64, _s: NumStdDev) -> f64 {
    kani::any()
}

//@ props: C01 C17
//@ tier: quick
//@ timeout: 900
//@ functions: common::binomial_bounds::lower_bound
//@ functions: common::binomial_bounds::upper_bound
//@ functions: theta::CompactThetaSketch::lower_bound
//@ functions: theta::CompactThetaSketch::upper_bound
//@ functions: theta::CompactThetaSketch::estimate
//@ stubs: the binomial approximations (ln / sqrt based) return an arbitrary f64, so the claim holds for every approximation value
//@ bounds: compact sketches with 0..=3 retained entries (symbolic count), theta in {MAX (exact), MAX/2+1, 12345678901}, every sigma; approximation functions over-approximated by arbitrary values (NaN included)
//@ desc: lower_bound(s) <= estimate <= upper_bound(s) for theta sketches in every state (the clamping min(est, max(n, lb)) / max(est, ub) enforces it whatever the approximation returns); in exact mode all three equal the number of retained entries
#[kani::proof]
#[kani::unwind(8)]
#[kani::stub(crate::common::binomial_bounds::compute_approx_binomial_lower_bound, stub_approx_lb)]
#[kani::stub(crate::common::binomial_bounds::compute_approx_binomial_upper_bound, stub_approx_ub)]
#[kani::stub(alloc::fmt::format, stub_format)]
fn c01_theta_bounds_order() {
    let n: usize = kani::any();
    kani::assume(n <= 3);
    // theta concrete per case (symbolic theta makes estimate() a symbolic/symbolic float division that is
    // evaluated twice - does not decide in 15 min); the retained count and sigma are symbolic
    let thetas = [MAX_THETA, MAX_THETA / 2 + 1, 12_345_678_901u64];
    let ti: usize = kani::any();
    kani::assume(ti < 3);
    let theta = thetas[ti];
    let ent = [1u64, 2, 3];
    let empty: bool = kani::any();
    kani::assume(!empty || (n == 0 && theta == MAX_THETA));
    let c = CompactThetaSketch { entries: ent[..n].to_vec(), theta, seed_hash: 1, ordered: true, empty };
    let sd: u8 = kani::any();
    kani::assume(sd >= 1 && sd <= 3);
    let s = match sd {
        1 => NumStdDev::One,
        2 => NumStdDev::Two,
        _ => NumStdDev::Three,
    };
    let est = c.estimate();
    let lb = c.lower_bound(s);
    let ub = c.upper_bound(s);
    assert!(lb <= est, "theta lower bound above the estimate");
    assert!(est <= ub, "theta upper bound below the estimate");
    if theta == MAX_THETA {
        assert!(est == n as f64 && lb == n as f64 && ub == n as f64, "exact mode must report the retained count for estimate and bounds");
    }
    kani::cover!(theta < MAX_THETA && n == 2);
    kani::cover!(theta == MAX_THETA && n == 3);
    core::mem::forget(c);
}

//@ props: C01 C04 C17
//@ tier: quick
//@ timeout: 900
//@ functions: theta::ThetaSketch::update
//@ functions: theta::ThetaSketch::is_empty
//@ functions: theta::ThetaSketch::compact
//@ functions: theta::ThetaHashTable::hash_and_screen
//@ bounds: a sampling sketch (theta below MAX, symbolic) with an empty table; one update with the concrete item 42u64 whose hash is screened out (hash >= theta)
//@ desc: a sketch that has been offered data is not empty even if every update was screened out: is_empty() is false, nothing is retained, theta keeps its value, and compact() agrees - so the upper bound is computed from theta instead of being reported as 0
#[kani::proof]
#[kani::unwind(20)]
#[kani::stub(crate::theta::hash_table::ThetaHashTable::try_insert, cut_try_insert)]
#[kani::stub(<[u64]>::sort_unstable, crate::verif_kani_common::model_sort_unstable)]
fn c01_theta_screened_out_is_not_empty() {
    let (h1, _) = crate::verif_kani_common::refhash::murmur3_x64_128(&42u64.to_le_bytes(), 8, 9001);
    let hash = h1 >> 1;
    let theta: u64 = kani::any();
    kani::assume(theta >= 1 && theta <= hash);
    let mut s = sketch_from(&[0; 4], theta);
    s.update(42u64);
    assert!(s.num_retained() == 0, "a hash >= theta was retained");
    assert!(s.theta64() == theta);
    assert!(!s.is_empty(), "sketch that has seen data reports empty (upper bound would be 0)");
    let c = s.compact(true);
    assert!(!c.is_empty() && c.theta64() == theta && c.num_retained() == 0, "compact of a screened-out sketch loses theta / emptiness");
    kani::cover!(true);
    core::mem::forget((s, c));
}

// ---------------------------------------------------------------------------------------------
// serialization
// ---------------------------------------------------------------------------------------------

fn rd_u16(b: &[u8], o: usize) -> u16 {
    (b[o] as u16) | ((b[o + 1] as u16) << 8)
}
fn rd_u32(b: &[u8], o: usize) -> u32 {
    (rd_u16(b, o) as u32) | ((rd_u16(b, o + 2) as u32) << 16)
}
fn rd_u64(b: &[u8], o: usize) -> u64 {
    (rd_u32(b, o) as u64) | ((rd_u32(b, o + 4) as u64) << 32)
}

/// loop-free little-endian store
fn put_le(b: &mut [u8], o: usize, v: u64, n: usize) {
    b[o] = v as u8;
    if n >= 2 {
        b[o + 1] = (v >> 8) as u8;
    }
    if n >= 4 {
        b[o + 2] = (v >> 16) as u8;
        b[o + 3] = (v >> 24) as u8;
    }
    if n >= 8 {
        b[o + 4] = (v >> 32) as u8;
        b[o + 5] = (v >> 40) as u8;
        b[o + 6] = (v >> 48) as u8;
        b[o + 7] = (v >> 56) as u8;
    }
}

macro_rules! same_words {
    ($bytes:expr, $img:expr, $len:expr; $($i:expr),*) => { $(
        if 8 * $i + 8 <= $len {
            assert!(rd_u64(&$bytes, 8 * $i) == rd_u64(&$img, 8 * $i), "serialized bytes differ from the documented layout");
        }
    )* };
}

/// symbolic compact sketch with N entries below theta; the shape (exact / estimating, empty, ordered) is
/// concrete, theta (when estimating) and the entries are symbolic
fn any_compact<const N: usize>(ordered: bool, estimating: bool, empty: bool) -> CompactThetaSketch {
    let theta: u64 = if estimating {
        let t: u64 = kani::any();
        kani::assume(t >= 1 && t < MAX_THETA);
        t
    } else {
        MAX_THETA
    };
    let mut v = [0u64; N];
    let mut i = 0;
    while i < N {
        v[i] = kani::any();
        kani::assume(v[i] != 0 && v[i] < theta);
        if i > 0 {
            if ordered {
                kani::assume(v[i - 1] < v[i]);
            } else {
                let mut j = 0;
                while j < i {
                    kani::assume(v[j] != v[i]);
                    j += 1;
                }
            }
        }
        i += 1;
    }
    assert!(!empty || (N == 0 && !estimating));
    let is_single = N == 1 && !estimating;
    CompactThetaSketch {
        entries: v.to_vec(),
        theta,
        seed_hash: 0x93CC,
        ordered: ordered || empty || is_single,
        empty,
    }
}

fn same_compact(a: &CompactThetaSketch, b: &CompactThetaSketch) {
    assert!(a.theta == b.theta, "theta differs");
    assert!(a.empty == b.empty, "emptiness differs");
    assert!(a.ordered == b.ordered, "ordered flag differs");
    assert!(a.seed_hash == b.seed_hash, "seed hash differs");
    assert!(a.entries.len() == b.entries.len(), "entry count differs");
    let mut i = 0;
    while i < a.entries.len() {
        assert!(a.entries[i] == b.entries[i], "entry differs");
        i += 1;
    }
}

/// Round trip against a SPEC ENCODER (compact theta, serial version 3, Java/C++ layout) in an exact-size
/// array with literal structure; the real serialize() must equal it byte for byte; the decoder runs on it.
fn v3_case<const N: usize, const LEN: usize>(ordered: bool, estimating: bool, empty: bool) {
    let c = any_compact::<N>(ordered, estimating, empty);
    let pre: u8 = if estimating { 3 } else if empty || N == 1 { 1 } else { 2 };
    let mut img = [0u8; LEN];
    img[0] = pre; // preamble longs
    img[1] = 3; // serial version
    img[2] = 3; // family
    // lg_nom / lg_arr (bytes 3, 4) unused in compact form
    img[5] = 2 | 8 | (if empty { 4 } else { 0 }) | (if c.ordered { 16 } else { 0 }); // read-only, compact, empty, ordered
    put_le(&mut img, 6, 0x93CC, 2); // seed hash
    let mut off = 8;
    if pre > 1 {
        put_le(&mut img, 8, N as u64, 4); // retained count (+ 4 bytes p / unused)
        off = 16;
    }
    if estimating {
        put_le(&mut img, 16, c.theta, 8);
        off = 24;
    }
    assert!(LEN == off + 8 * N);
    let mut i = 0;
    while i < N {
        put_le(&mut img, off + 8 * i, c.entries[i], 8);
        i += 1;
    }
    let bytes = c.serialize();
    assert!(bytes.len() == LEN, "image length is not 8 * (preLongs + entries)");
    same_words!(bytes, img, LEN; 0, 1, 2, 3, 4, 5, 6, 7);
    // ---- round trip
    let r = CompactThetaSketch::deserialize(&img);
    let g = crate::verif_kani_common::expect_ok(r, "own v3 image rejected");
    same_compact(&c, &g);
    kani::cover!(true);
    core::mem::forget((c, g, bytes));
}

macro_rules! theta_v3_roundtrip {
    ($name:ident, $n:expr, $len:expr, $ordered:expr, $est:expr, $empty:expr) => {
        #[kani::proof]
        #[kani::unwind(6)]
        #[kani::stub(alloc::fmt::format, stub_format)]
        fn $name() {
            v3_case::<$n, $len>($ordered, $est, $empty);
        }
    };
}

//@ family: theta_v3_roundtrip
//@ props: C11 C12 C18
//@ tier: thorough
//@ timeout: 1800
//@ functions: theta::CompactThetaSketch::serialize
//@ functions: theta::CompactThetaSketch::deserialize
//@ functions: theta::CompactThetaSketch::deserialize_v3
//@ functions: theta::CompactThetaSketch::read_entries
//@ functions: theta::CompactThetaSketch::preamble_longs
//@ unwind: 6
//@ stubs: alloc::fmt::format -> empty string
//@ bounds: compact sketches of the instance's shape: 0..=3 entries, ordered / unordered, exact (theta = MAX) or estimating (theta symbolic), the empty sketch and non-empty zero-entry sketches; entries symbolic
//@ desc: serialize() equals, byte for byte, the image a spec encoder written from the compact-theta v3 documentation produces (preLongs 1 for empty and exact single-item sketches, 2 for exact, 3 whenever theta < 1; serVer 3, family 3, flags read-only|compact|empty|ordered, seed hash, count, theta, hashes; length 8 * (preLongs + entries)), and that image deserializes to the identical sketch
theta_v3_roundtrip!(c11_theta_v3_roundtrip_empty, 0, 8, true, false, true); //@ tier: quick
theta_v3_roundtrip!(c11_theta_v3_roundtrip_exact_zero_entries, 0, 16, true, false, false);
theta_v3_roundtrip!(c11_theta_v3_roundtrip_estimating_zero_entries, 0, 24, true, true, false); //@ tier: quick
theta_v3_roundtrip!(c11_theta_v3_roundtrip_single_item, 1, 16, true, false, false); //@ tier: quick
theta_v3_roundtrip!(c11_theta_v3_roundtrip_estimating_one_entry, 1, 32, true, true, false); //@ tier: quick
theta_v3_roundtrip!(c11_theta_v3_roundtrip_exact_two_ordered, 2, 32, true, false, false); //@ tier: quick
theta_v3_roundtrip!(c11_theta_v3_roundtrip_estimating_two_unordered, 2, 40, false, true, false);
theta_v3_roundtrip!(c11_theta_v3_roundtrip_estimating_three_ordered, 3, 48, true, true, false);
//@ endfamily: x

/// lengths at which the truncated-image instances cut the buffer (concrete: a slice of symbolic length
/// defeats CBMC's constant propagation over the literal version byte and every version's parser is explored)
const SHORT_LENS: [usize; 8] = [0, 1, 2, 7, 8, 15, 16, 23];

fn theta_any_bytes_case(version: u8, reserialize: bool, short: bool) {
    if short {
        let mut i = 0;
        while i < SHORT_LENS.len() {
            theta_any_bytes_at(version, false, SHORT_LENS[i]);
            i += 1;
        }
        theta_any_bytes_at(version, false, 24);
        theta_any_bytes_at(version, false, 31);
    } else {
        theta_any_bytes_at(version, reserialize, 48);
    }
}

fn theta_any_bytes_at(version: u8, reserialize: bool, len: usize) {
    let mut img: [u8; 48] = kani::any();
    img[1] = version; // (a literal, not an assumption: symbolic execution then only explores this version's parser)
    let r = CompactThetaSketch::deserialize(&img[..len]);
    kani::cover!(r.is_ok() || len != 48);
    kani::cover!(r.is_err());
    if let Ok(g) = r {
        kani::cover!(g.entries.len() == 2 || len != 48);
        let _ = g.estimate();
        let _ = g.upper_bound(NumStdDev::Two);
        let _ = g.lower_bound(NumStdDev::Two);
        if reserialize {
            let out = g.serialize();
            core::mem::forget(out);
        }
        core::mem::forget(g);
    } else {
        core::mem::forget(r);
    }
}

macro_rules! theta_any_bytes {
    ($name:ident, $v:expr, $re:expr, $short:expr) => {
        #[kani::proof]
        #[kani::unwind(7)]
        #[kani::stub(alloc::fmt::format, stub_format)]
        #[kani::stub(alloc::vec::Vec::with_capacity, crate::verif_kani_common::stub_with_capacity)]
        #[kani::stub(crate::common::binomial_bounds::compute_approx_binomial_lower_bound, stub_approx_lb)]
        #[kani::stub(crate::common::binomial_bounds::compute_approx_binomial_upper_bound, stub_approx_ub)]
        fn $name() {
            theta_any_bytes_case($v, $re, $short);
        }
    };
}

//@ family: theta_any_bytes
//@ props: C14
//@ tier: thorough
//@ timeout: 2400
//@ functions: theta::CompactThetaSketch::deserialize
//@ functions: theta::CompactThetaSketch::deserialize_v1
//@ functions: theta::CompactThetaSketch::deserialize_v2
//@ functions: theta::CompactThetaSketch::deserialize_v3
//@ functions: theta::CompactThetaSketch::read_entries
//@ unwind: 7
//@ stubs: alloc::fmt::format -> empty string; Vec::with_capacity -> empty vector (capacity is a hint); binomial approximations -> arbitrary values
//@ bounds: every byte string of exactly 48 bytes (in the *_truncated instances: of each of the lengths 0, 1, 2, 7, 8, 15, 16, 23, 24, 31) with the serial version of the instance (1, 2, 3; v4: c14_theta_v4_any_bytes; other versions are rejected in the header - covered by each instance's Err paths and c14_theta_unknown_version)
//@ desc: deserialize returns Ok or Err without panic for every v1/v2/v3 byte string; an Ok value can be queried (estimate, bounds) and - in the *_reserialize instances - re-serialized without panicking
theta_any_bytes!(c14_theta_v1_any_bytes, 1, false, false); //@ tier: quick
theta_any_bytes!(c14_theta_v2_any_bytes, 2, false, false); //@ tier: quick
theta_any_bytes!(c14_theta_v3_any_bytes, 3, false, false); //@ tier: quick
theta_any_bytes!(c14_theta_v3_any_bytes_truncated, 3, false, true);
theta_any_bytes!(c14_theta_v2_any_bytes_truncated, 2, false, true);
theta_any_bytes!(c14_theta_v1_any_bytes_truncated, 1, false, true);
theta_any_bytes!(c14_theta_v3_any_bytes_reserialize, 3, true, false);
theta_any_bytes!(c14_theta_v2_any_bytes_reserialize, 2, true, false);
//@ endfamily: x

//@ props: C14
//@ tier: quick
//@ timeout: 900
//@ functions: theta::CompactThetaSketch::deserialize
//@ bounds: every 24-byte string whose serial version byte is 0, 5, 6 or 255
//@ desc: images of an unknown serial version are rejected (Err), never a panic
#[kani::proof]
#[kani::unwind(10)]
#[kani::stub(alloc::fmt::format, stub_format)]
#[kani::stub(alloc::vec::Vec::with_capacity, crate::verif_kani_common::stub_with_capacity)]
fn c14_theta_unknown_version() {
    // (the version byte as a literal per call: a symbolic one makes symbolic execution explore all four parsers)
    let versions: [u8; 4] = [0, 5, 6, 255];
    let mut i = 0;
    while i < 4 {
        let mut img: [u8; 24] = kani::any();
        img[1] = versions[i];
        let r = CompactThetaSketch::deserialize(&img);
        assert!(r.is_err(), "an image with an unknown serial version was accepted");
        core::mem::forget(r);
        i += 1;
    }
    kani::cover!(true);
}

//@ props: C14
//@ tier: thorough
//@ timeout: 1800
//@ functions: theta::CompactThetaSketch::deserialize
//@ functions: theta::CompactThetaSketch::deserialize_v4
//@ functions: theta::bit_pack::BitUnpacker::unpack_value
//@ stubs: unpack_bits_block -> model that fails where the real one panics and returns arbitrary deltas
//@ bounds: every byte string of exactly 48 bytes with serial version 4 (entry_bits, num_entries_bytes, counts and payload symbolic; counts beyond the buffer exercise the truncated-payload paths)
//@ desc: deserialize returns Ok or Err without panic (no shift overflow on the count bytes, no assertion in the unpackers, no add overflow on the deltas) for every v4 byte string
#[kani::proof]
#[kani::unwind(12)]
#[kani::stub(alloc::fmt::format, stub_format)]
#[kani::stub(crate::theta::bit_pack::unpack_bits_block, model_unpack_block)]
#[kani::stub(alloc::vec::Vec::with_capacity, crate::verif_kani_common::stub_with_capacity)]
fn c14_theta_v4_any_bytes() {
    theta_v4_any_bytes_case(None);
}

/// `shape` = Some((entry_bits, count, preLongs)): those header fields (and the count-byte count 1) as literals -
/// the block and tail buffers are then allocated with concrete sizes; theta, flags, preLongs, seed hash and
/// the whole payload stay symbolic
fn theta_v4_any_bytes_case(shape: Option<(u8, u8, u8)>) {
    let mut img: [u8; 48] = kani::any();
    let len: usize = 48;
    img[1] = 4;
    if let Some((bits, count, pre)) = shape {
        img[0] = pre;
        img[3] = bits;
        img[4] = 1;
        if pre == 2 {
            img[16] = count;
        } else {
            img[8] = count;
        }
    }
    let r = CompactThetaSketch::deserialize(&img[..len]);
    kani::cover!(r.is_ok());
    kani::cover!(r.is_err());
    if let Ok(g) = r {
        kani::cover!(g.entries.len() >= 1);
        let _ = g.estimate();
        core::mem::forget(g);
    } else {
        core::mem::forget(r);
    }
}

macro_rules! theta_v4_any_bytes {
    ($name:ident, $bits:expr, $count:expr, $pre:expr) => {
        #[kani::proof]
        #[kani::unwind(12)]
        #[kani::stub(alloc::fmt::format, stub_format)]
        #[kani::stub(alloc::vec::Vec::with_capacity, crate::verif_kani_common::stub_with_capacity)]
        #[kani::stub(crate::theta::bit_pack::unpack_bits_block, model_unpack_block)]
        fn $name() {
            theta_v4_any_bytes_case(Some(($bits, $count, $pre)));
        }
    };
}

//@ family: theta_v4_any_bytes
//@ props: C14
//@ tier: thorough
//@ timeout: 2400
//@ functions: theta::CompactThetaSketch::deserialize
//@ functions: theta::CompactThetaSketch::deserialize_v4
//@ functions: theta::bit_pack::BitUnpacker::unpack_value
//@ unwind: 12
//@ stubs: alloc::fmt::format -> empty string; Vec::with_capacity -> empty vector; unpack_bits_block -> model that fails where the real one panics and returns arbitrary deltas
//@ bounds: every 48-byte string with serial version 4 whose entry width (@3), count-byte count (@4 = 1) and entry count are the literals of the instance: (63 bits, 3 entries: three deltas whose sum can overflow), (1 bit, 9 entries: one block and a tail), (13 bits, 2 entries); preLongs (1: exact, 2: with theta) literal per instance; theta, flags, seed hash and the payload symbolic
//@ desc: deserialize returns Ok or Err without panic (no shift overflow, no assertion in the unpackers, no add overflow on the deltas, theta validated) for every such v4 byte string; an Ok value can be queried
theta_v4_any_bytes!(c14_theta_v4_any_bytes_63_bits_3_entries, 63, 3, 2); //@ tier: quick
theta_v4_any_bytes!(c14_theta_v4_any_bytes_1_bit_9_entries, 1, 9, 1); //@ tier: quick
theta_v4_any_bytes!(c14_theta_v4_any_bytes_13_bits_2_entries, 13, 2, 2);
//@ endfamily: x

/// spec encoder for the legacy versions: v1 (3 preLongs always), v2 (1/2/3 preLongs)
fn put_u64(b: &mut [u8], o: usize, v: u64) {
    put_le(b, o, v, 8);
}

/// One foreign image variant per case (CASE), built by the harness's spec encoder from a symbolic state.
fn foreign_case<const CASE: u8, const NENT: usize>() {
    let theta: u64 = kani::any();
    kani::assume(theta >= 3 && theta <= MAX_THETA);
    let e0: u64 = kani::any();
    let e1: u64 = kani::any();
    kani::assume(e0 >= 1 && e0 < e1 && e1 < theta);
    let n: usize = NENT; // (concrete per instance: the image length and the count field are structure)
    let th: u64 = kani::any(); // theta of the zero-entry estimating images
    kani::assume(th >= 1 && th < MAX_THETA);
    let mut img = [0u8; 48];
    img[2] = 3; // family
    img[6] = 0xCC;
    img[7] = 0x93;
    match CASE {
        // serial version 1: [preLongs=3, 1, 3, 0,0,0,0,0][count u32, pad u32][theta][entries]
        1 => {
            img[0] = 3;
            img[1] = 1;
            img[6] = 0;
            img[7] = 0;
            img[8] = n as u8;
            put_u64(&mut img, 16, theta);
            put_u64(&mut img, 24, e0);
            put_u64(&mut img, 32, e1);
            let g = crate::verif_kani_common::expect_ok(CompactThetaSketch::deserialize(&img[..24 + 8 * n]), "valid v1 image rejected");
            assert!(g.entries.len() == n && g.entries[0] == e0 && g.entries[n - 1] == if n == 2 { e1 } else { e0 }, "v1 image: entries");
            assert!(g.theta == theta && !g.empty && g.ordered, "v1 image: theta / emptiness / ordering");
            core::mem::forget(g);
        }
        // serial version 2, exact: [preLongs=2, 2, 3, 0,0, flags, seedhash][count u32, pad][entries]
        2 => {
            img[0] = 2;
            img[1] = 2;
            img[8] = n as u8;
            put_u64(&mut img, 16, e0);
            put_u64(&mut img, 24, e1);
            let g = crate::verif_kani_common::expect_ok(CompactThetaSketch::deserialize(&img[..16 + 8 * n]), "valid v2 exact image rejected");
            assert!(g.entries.len() == n && g.entries[0] == e0 && g.theta == MAX_THETA, "v2 exact image: entries / theta");
            assert!(!g.empty, "v2 exact image with entries decoded as an empty sketch");
            assert!(g.estimate() == n as f64, "v2 exact image: estimate is not the number of entries");
            core::mem::forget(g);
        }
        // serial version 2, estimating: preLongs=3
        3 => {
            img[0] = 3;
            img[1] = 2;
            img[8] = n as u8;
            put_u64(&mut img, 16, theta);
            put_u64(&mut img, 24, e0);
            put_u64(&mut img, 32, e1);
            let g = crate::verif_kani_common::expect_ok(CompactThetaSketch::deserialize(&img[..24 + 8 * n]), "valid v2 estimating image rejected");
            assert!(g.entries.len() == n && g.entries[n - 1] == if n == 2 { e1 } else { e0 } && g.theta == theta && !g.empty, "v2 estimating image decoded to a different state");
            core::mem::forget(g);
        }
        // serial version 2, empty: preLongs=1
        4 => {
            img[0] = 1;
            img[1] = 2;
            let g = crate::verif_kani_common::expect_ok(CompactThetaSketch::deserialize(&img[..8]), "valid v2 empty image rejected");
            assert!(g.entries.is_empty() && g.empty && g.theta == MAX_THETA);
            core::mem::forget(g);
        }
        // serial version 3 single item: preLongs=1, flags read-only|compact|ordered|single(32), one hash
        5 => {
            img[0] = 1;
            img[1] = 3;
            img[5] = 2 | 8 | 16 | 32;
            put_u64(&mut img, 8, e0);
            let g = crate::verif_kani_common::expect_ok(CompactThetaSketch::deserialize(&img[..16]), "valid v3 single-item image rejected");
            assert!(g.entries.len() == 1 && g.entries[0] == e0 && g.theta == MAX_THETA && !g.empty && g.ordered, "v3 single-item image decoded to a different state");
            assert!(g.estimate() == 1.0);
            core::mem::forget(g);
        }
        // estimating images that retain nothing (count 0, theta < 1.0): a NON-empty sketch, v1 / v2 / v3
        6 => {
            img[0] = 3;
            img[1] = 1;
            img[6] = 0;
            img[7] = 0;
            put_u64(&mut img, 16, th);
            let g = crate::verif_kani_common::expect_ok(CompactThetaSketch::deserialize(&img[..24]), "valid v1 zero-entry image rejected");
            assert!(g.entries.is_empty() && g.theta == th && !g.empty, "v1 estimating image without entries decoded as empty / lost theta");
            core::mem::forget(g);
        }
        7 => {
            img[0] = 3;
            img[1] = 2;
            put_u64(&mut img, 16, th);
            let g = crate::verif_kani_common::expect_ok(CompactThetaSketch::deserialize(&img[..24]), "valid v2 zero-entry image rejected");
            assert!(g.entries.is_empty() && g.theta == th && !g.empty, "v2 estimating image without entries decoded as empty / lost theta");
            core::mem::forget(g);
        }
        _ => {
            img[0] = 3;
            img[1] = 3;
            img[5] = 2 | 8 | 16;
            put_u64(&mut img, 16, th);
            let g = crate::verif_kani_common::expect_ok(CompactThetaSketch::deserialize(&img[..24]), "valid v3 zero-entry image rejected");
            assert!(g.entries.is_empty() && g.theta == th && !g.empty && g.ordered, "v3 estimating image without entries decoded as empty / lost theta");
            core::mem::forget(g);
        }
    }
}

macro_rules! theta_foreign {
    ($name:ident, $case:expr, $n:expr) => {
        #[kani::proof]
        #[kani::unwind(6)]
        #[kani::stub(alloc::fmt::format, stub_format)]
        fn $name() {
            foreign_case::<$case, $n>();
            kani::cover!(true);
        }
    };
}

//@ family: theta_foreign
//@ props: C13
//@ tier: quick
//@ timeout: 900
//@ functions: theta::CompactThetaSketch::deserialize
//@ functions: theta::CompactThetaSketch::deserialize_v1
//@ functions: theta::CompactThetaSketch::deserialize_v2
//@ functions: theta::CompactThetaSketch::deserialize_v3
//@ unwind: 6
//@ bounds: one image variant and entry count per instance, built by the harness's spec encoder (48-byte array, structural fields literal) from a symbolic abstract state with 0..=2 entries and symbolic theta: serial version 1 (always 3 preLongs); serial version 2 with preLongs 1 (empty), 2 (exact), 3 (estimating); serial version 3 single-item form; estimating images without entries (count 0, theta < 1.0) in versions 1, 2, 3
//@ desc: the legacy / foreign compact-theta image variant is read back to the state it encodes: entries, theta, emptiness (non-empty unless it encodes an empty sketch), ordered
theta_foreign!(c13_theta_v1, 1, 2);
theta_foreign!(c13_theta_v1_one_entry, 1, 1);
theta_foreign!(c13_theta_v2_exact, 2, 2);
theta_foreign!(c13_theta_v2_exact_one_entry, 2, 1);
theta_foreign!(c13_theta_v2_estimating, 3, 2);
theta_foreign!(c13_theta_v2_estimating_one_entry, 3, 1);
theta_foreign!(c13_theta_v2_empty, 4, 1);
theta_foreign!(c13_theta_v3_single_item, 5, 1);
theta_foreign!(c13_theta_v1_zero_entries, 6, 1);
theta_foreign!(c13_theta_v2_zero_entries, 7, 1);
theta_foreign!(c13_theta_v3_zero_entries, 8, 1);
//@ endfamily: x

fn v4_case<const N: usize>() {
    // entries are built from symbolic deltas of at most DELTA_BITS bits so that the bit width is symbolic
    let theta: u64 = kani::any();
    kani::assume(theta >= 2 && theta <= MAX_THETA);
    let mut v = [0u64; N];
    let mut prev = 0u64;
    let mut i = 0;
    while i < N {
        let d: u64 = kani::any();
        kani::assume(d >= 1 && d < theta && prev <= theta - 1 - d);
        prev += d;
        v[i] = prev;
        i += 1;
    }
    let c = CompactThetaSketch { entries: v.to_vec(), theta, seed_hash: 0x93CC, ordered: true, empty: false };
    kani::assume(c.is_suitable_for_compression());
    let bytes = c.serialize_compressed();
    // ---- spec decoder: compact theta serial version 4 header
    let est = theta < MAX_THETA;
    assert!(bytes[0] == if est { 2 } else { 1 }, "v4 preamble longs");
    assert!(bytes[1] == 4 && bytes[2] == 3, "serial version 4 / family 3");
    let entry_bits = bytes[3];
    let count_bytes = bytes[4] as usize;
    assert!(bytes[5] == (2 | 8 | 16), "v4 flags: read-only | compact | ordered");
    assert!(rd_u16(&bytes, 6) == 0x93CC);
    let mut off = 8;
    if est {
        assert!(rd_u64(&bytes, 8) == theta, "theta long");
        off = 16;
    }
    let mut n = 0usize;
    let mut i = 0;
    while i < count_bytes {
        n |= (bytes[off + i] as usize) << (8 * i);
        i += 1;
    }
    assert!(n == N && count_bytes == 1, "entry count bytes");
    off += count_bytes;
    assert!(entry_bits >= 1 && entry_bits <= 63);
    assert!(bytes.len() == off + (N * entry_bits as usize + 7) / 8, "v4 image length");
    // the widest delta needs exactly entry_bits bits
    let mut ored = 0u64;
    let mut p = 0u64;
    let mut i = 0;
    while i < N {
        ored |= v[i] - p;
        p = v[i];
        i += 1;
    }
    assert!(64 - ored.leading_zeros() as u8 == entry_bits, "entry_bits is not the width of the widest delta");
    // ---- round trip
    let r = CompactThetaSketch::deserialize(&bytes);
    let g = crate::verif_kani_common::expect_ok(r, "own v4 image rejected");
    same_compact(&c, &g);
    kani::cover!(entry_bits == 63);
    kani::cover!(entry_bits == 1);
    core::mem::forget((c, g, bytes));
}

fn cut_pack_block(_values: &[u64], _bytes: &mut [u8], _bits: u8) {
    panic!("verif cut: the 8-entry block packer reached with fewer than 8 entries");
}
fn cut_unpack_block(_values: &mut [u64], _bytes: &[u8], _bits: u8) {
    panic!("verif cut: the 8-entry block unpacker reached with fewer than 8 entries");
}

macro_rules! theta_v4_roundtrip {
    ($name:ident, $n:expr, $unwind:expr) => {
        #[kani::proof]
        #[kani::unwind($unwind)]
        #[kani::stub(alloc::fmt::format, stub_format)]
        #[kani::stub(crate::theta::bit_pack::pack_bits_block, cut_pack_block)]
        #[kani::stub(crate::theta::bit_pack::unpack_bits_block, cut_unpack_block)]
        fn $name() {
            v4_case::<$n>();
        }
    };
}

//@ family: theta_v4_roundtrip
//@ props: C11 C12
//@ tier: thorough
//@ timeout: 3600
//@ functions: theta::CompactThetaSketch::serialize_compressed
//@ functions: theta::CompactThetaSketch::serialize_v4
//@ functions: theta::CompactThetaSketch::deserialize_v4
//@ functions: theta::CompactThetaSketch::compute_entry_bits
//@ functions: theta::CompactThetaSketch::num_entries_bytes
//@ functions: theta::bit_pack::BitPacker::pack_value
//@ functions: theta::bit_pack::BitUnpacker::unpack_value
//@ unwind: 12
//@ stubs: alloc::fmt::format -> empty string; pack_bits_block / unpack_bits_block -> must-not-reach cuts (fewer than 8 entries: the 63-way width dispatch is covered per width by c11_pack_bits_NN)
//@ bounds: ordered compact sketches with the instance's number of entries (1, 2, 3: tail path; the 8-entry block path is covered per width by c11_pack_bits_NN), every theta, every delta - so every bit width 1..=63 arises symbolically
//@ desc: the compressed image has the v4 header (preLongs 1/2, serVer 4, family 3, entry_bits @3, count-byte count @4, flags, seed hash, theta, little-endian count), the declared width is that of the widest delta, the length is header + ceil(n*bits/8), and it deserializes to the identical sketch
theta_v4_roundtrip!(c11_theta_v4_roundtrip_1, 1, 12);
theta_v4_roundtrip!(c11_theta_v4_roundtrip_2, 2, 12);
theta_v4_roundtrip!(c11_theta_v4_roundtrip_3, 3, 12);
//@ endfamily: x

//@ props: C11 C12 C17
//@ tier: quick
//@ timeout: 300
//@ functions: theta::CompactThetaSketch::num_entries_bytes
//@ bounds: every entry count 0..2^32
//@ desc: the count field of a compressed (v4) image is written in the fewest bytes that hold the count: b = num_entries_bytes(n) satisfies n < 256^b, and b is minimal (b = 0 only for n = 0) - so the little-endian count the decoder reassembles from b bytes is n, also at n = 2^8, 2^16, 2^24
#[kani::proof]
fn c11_theta_num_entries_bytes_spec() {
    let n: u32 = kani::any();
    let b = CompactThetaSketch::num_entries_bytes(n as usize);
    assert!(b <= 4);
    let cap: u64 = 1u64 << (8 * b as u32);
    assert!((n as u64) < cap, "the count does not fit the number of count bytes written");
    if b > 0 {
        assert!((n as u64) >= (1u64 << (8 * (b as u32 - 1))), "more count bytes than needed");
    } else {
        assert!(n == 0);
    }
    kani::cover!(n == 256 && b == 2);
    kani::cover!(n == 65536);
}
