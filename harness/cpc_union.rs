//@@ attach: cpc/union.rs
//@@ needs: cpc_pair_table.rs
// CpcUnion: OR kernels with row folding, golden-ratio table walk, to_sketch from a bit matrix.
use super::*;
use crate::cpc::pair_table::verif_kani_cpc_pair_table as vt;

//@ props: C06 C17
//@ tier: quick
//@ timeout: 900
//@ functions: cpc::union::or_matrix_into_matrix
//@ functions: cpc::union::or_window_into_matrix
//@ functions: cpc::union::or_table_into_matrix
//@ bounds: destination of 4 rows (lg 2), sources of 8 rows (lg 3, folded) and 4 rows (same size); all row contents, window bytes, window offset 0..=56 and a 4-slot surprising-value table (<= 3 items, rows < 8) symbolic. The kernels are parametric in lg_k; the public minimum 4 only changes the sizes
//@ desc: each kernel ORs the source into the destination with source rows folded modulo the destination size: dst'[r] = dst[r] | OR of src rows congruent to r (window bits shifted by the offset, table pairs as single bits); nothing else changes
#[kani::proof]
#[kani::unwind(10)]
fn c06_or_kernels_fold_rows() {
    let dst: [u64; 4] = kani::any();
    let src8: [u64; 8] = kani::any();
    let mut d = dst;
    or_matrix_into_matrix(&mut d, 2, &src8, 3);
    let mut r = 0;
    while r < 4 {
        assert!(d[r] == dst[r] | src8[r] | src8[r + 4], "matrix OR with down-sampling is not the folded OR");
        r += 1;
    }
    let src4: [u64; 4] = kani::any();
    let mut d = dst;
    or_matrix_into_matrix(&mut d, 2, &src4, 2);
    let mut r = 0;
    while r < 4 {
        assert!(d[r] == dst[r] | src4[r]);
        r += 1;
    }
    // window
    let win: [u8; 8] = kani::any();
    let off: u8 = kani::any();
    kani::assume(off <= 56);
    let mut d = dst;
    or_window_into_matrix(&mut d, 2, &win, off, 3);
    let mut r = 0;
    while r < 4 {
        assert!(d[r] == dst[r] | ((win[r] as u64) << off) | ((win[r + 4] as u64) << off), "window OR is not the folded, shifted OR");
        r += 1;
    }
    // table: pairs (row < 8, col < 64) in a 4-slot table
    let slots: [u32; 4] = kani::any();
    let mut i = 0;
    while i < 4 {
        kani::assume(slots[i] == u32::MAX || slots[i] < (8 << 6));
        i += 1;
    }
    let t = vt::raw_table(2, &slots);
    let mut d = dst;
    or_table_into_matrix(&mut d, 2, &t);
    let mut model = dst;
    let mut i = 0;
    while i < 4 {
        if slots[i] != u32::MAX {
            model[((slots[i] >> 6) & 3) as usize] |= 1u64 << (slots[i] & 63);
        }
        i += 1;
    }
    let mut r = 0;
    while r < 4 {
        assert!(d[r] == model[r], "table OR is not the folded OR of its pairs");
        r += 1;
    }
    kani::cover!(off == 56);
    core::mem::forget(t);
}

//@ props: C06 C17
//@ tier: quick
//@ timeout: 600
//@ functions: cpc::union::walk_table_updating_sketch
//@ bounds: every table size 2^2..=2^26 (the stride arithmetic, concrete loop over the 25 sizes)
//@ desc: the golden-ratio stride used to walk a source table is odd, >= 3 and < the table size, hence coprime with the power-of-two size: the walk visits every slot exactly once and its assertions never fire
#[kani::proof]
#[kani::unwind(30)]
fn c06_walk_stride_arithmetic() {
    let mut lg = 2u32;
    while lg <= 26 {
        let num_slots: u32 = 1 << lg;
        let mut stride = (0.6180339887498949 * (num_slots as f64)) as u32;
        assert!(stride >= 2);
        if stride == ((stride >> 1) << 1) {
            stride += 1;
        }
        assert!(stride >= 3 && stride < num_slots && stride % 2 == 1);
        lg += 1;
    }
    kani::cover!(true);
}

fn popcount_rows(m: &[u64]) -> u32 {
    let mut n = 0u32;
    let mut i = 0;
    while i < m.len() {
        let mut w = m[i];
        w = w - ((w >> 1) & 0x5555555555555555);
        w = (w & 0x3333333333333333) + ((w >> 2) & 0x3333333333333333);
        w = (w + (w >> 4)) & 0x0f0f0f0f0f0f0f0f;
        w = w + (w >> 8);
        w = w + (w >> 16);
        w = w + (w >> 32);
        n += (w & 0x7f) as u32;
        i += 1;
    }
    n
}

/// cut: the HIP accumulators (kxp, hip_est_accum; f64) of input sketches are not read by the union and the
/// merged result's estimator is ICON (C01, outside); removing the float updates is what makes these fit
fn cut_update_hip(_s: &mut CpcSketch, _row_col: u32) {}

// ---------------------------------------------------------------------------------------------
// Sparse inputs into the accumulator (cases A of CpcUnion::update, reduce_k): lg_k 5 / 6, where one or
// two coupons keep a sketch Sparse (at the public minimum lg_k 4 the second coupon already graduates).
// ---------------------------------------------------------------------------------------------

/// Sparse sketch holding one symbolic coupon whose home slot in the 4-slot table is `home` (the top two
/// row bits are fixed per instance, every other row bit and the column are symbolic): the table layout
/// is concrete, so walking it makes exactly one row_col_update call. The coupon sits in its home slot,
/// which is where maybe_insert puts the first item of a table (probing invariant holds).
fn sparse_source(lg_k: u8, home: u32) -> (CpcSketch, u32) {
    let mut s = CpcSketch::new(lg_k);
    let low: u32 = kani::any();
    let col: u32 = kani::any();
    kani::assume(low < (1u32 << (lg_k - 2)) && col < 64);
    let row = (home << (lg_k - 2)) | low;
    let rc = (row << 6) | col;
    let mut slots = [u32::MAX; 4];
    slots[home as usize] = rc;
    let t = vt::raw_table_nvb(2, 6 + lg_k, &slots);
    assert!(vt::lookup_of(&t, rc) == home, "verif: harness table layout is not the one maybe_insert produces");
    s.surprising_value_table = Some(t);
    s.num_coupons = 1;
    (s, rc)
}

fn fold_rc(rc: u32, lg: u8) -> u32 {
    (((rc >> 6) & ((1u32 << lg) - 1)) << 6) | (rc & 63)
}

/// the union (in accumulator form) denotes exactly the set {x, y} of folded coupons: for a Sparse sketch the
/// matrix is by definition the set of table entries (CpcSketch::build_bit_matrix, C05)
fn check_accumulator(u: &CpcUnion, lg: u8, x: u32, y: u32) {
    assert!(u.lg_k() == lg, "union lg_k is not the smallest lg_k seen");
    let c = if x == y { 1 } else { 2 };
    assert!(u.num_coupons() == c, "union coupon count is not the population count of the folded OR");
    let r = u.to_sketch();
    assert!(r.lg_k() == lg && r.num_coupons() == c, "result sketch has the wrong lg_k or coupon count");
    assert!(r.merge_flag, "result sketch not marked as merged");
    assert!(r.window_offset == 0 && r.sliding_window.is_empty() && r.first_interesting_column == 0);
    assert!(r.flavor() == Flavor::Sparse);
    let t = r.surprising_value_table();
    let sl = t.slots();
    assert!(sl.len() <= 8);
    let (mut seen_x, mut seen_y, mut n) = (false, false, 0u32);
    let mut i = 0;
    while i < sl.len() {
        if sl[i] != u32::MAX {
            assert!(sl[i] == x || sl[i] == y, "union result holds a coupon that is in neither input (after folding)");
            if sl[i] == x {
                seen_x = true;
            }
            if sl[i] == y {
                seen_y = true;
            }
            n += 1;
        }
        i += 1;
    }
    assert!(seen_x && seen_y, "a coupon of an input is missing from the union result");
    assert!(n == c, "a coupon is stored twice");
    core::mem::forget(r);
}

fn sparse_union_case(lg_a: u8, lg_b: u8, lg_u: u8, home_a: u32, home_b: u32, can_collide: bool) {
    let (a, ca) = sparse_source(lg_a, home_a);
    let (b, cb) = sparse_source(lg_b, home_b);
    let mut u = CpcUnion::new(lg_u);
    u.update(&a);
    let lg1 = if lg_a < lg_u { lg_a } else { lg_u };
    check_accumulator(&u, lg1, fold_rc(ca, lg1), fold_rc(ca, lg1));
    u.update(&b);
    let lg2 = if lg_b < lg1 { lg_b } else { lg1 };
    let (x, y) = (fold_rc(ca, lg2), fold_rc(cb, lg2));
    check_accumulator(&u, lg2, x, y);
    kani::cover!(!can_collide || x == y); // the two inputs are equal after folding
    assert!(can_collide || x != y);
    kani::cover!(x != y);
    core::mem::forget((a, b, u));
}

/// the first update of a fresh union with a one-coupon Sparse sketch: lg_k, coupon count and the stored coupon
fn first_update_case(lg_src: u8, lg_u: u8, home: u32) {
    let (a, ca) = sparse_source(lg_src, home);
    let mut u = CpcUnion::new(lg_u);
    u.update(&a);
    let lg = if lg_src < lg_u { lg_src } else { lg_u };
    assert!(u.lg_k() == lg, "union lg_k is not the smaller of its own and the input's");
    assert!(u.num_coupons() == 1, "one coupon in, not one coupon held");
    match &u.state {
        UnionState::Accumulator(acc) => {
            assert!(acc.lg_k() == lg, "accumulator sketch has another lg_k than the union");
            let sl = acc.surprising_value_table().slots();
            let want = fold_rc(ca, lg);
            let mut n = 0;
            let mut i = 0;
            while i < sl.len() && i < 8 {
                if sl[i] != u32::MAX {
                    assert!(sl[i] == want, "accumulator holds a coupon that is not the input's coupon folded to the union's lg_k");
                    n += 1;
                }
                i += 1;
            }
            assert!(n == 1);
        }
        UnionState::BitMatrix(_) => assert!(false, "one Sparse input cannot graduate the union"),
    }
    kani::cover!(true);
    core::mem::forget((a, u));
}

macro_rules! cpc_union_first {
    ($name:ident, $lgs:expr, $lgu:expr, $home:expr) => {
        #[kani::proof]
        #[kani::unwind(10)]
        #[kani::stub(CpcSketch::update_hip, cut_update_hip)]
        fn $name() {
            first_update_case($lgs, $lgu, $home);
        }
    };
}

//@ family: cpc_union_first
//@ props: C06 C17
//@ tier: thorough
//@ timeout: 1800
//@ functions: cpc::union::CpcUnion::update
//@ functions: cpc::union::CpcUnion::reduce_k
//@ functions: cpc::union::walk_table_updating_sketch
//@ functions: cpc::sketch::CpcSketch::row_col_update
//@ unwind: 10
//@ stubs: CpcSketch::update_hip -> no-op (cut: f64 HIP accumulators are not read by the union)
//@ bounds: a fresh union (lg_k 5 or 6) receiving one Sparse sketch of one symbolic coupon (lg_k 5 or 6; concrete table layout: the coupon's home slot fixed per instance, all other row bits and the column symbolic)
//@ desc: after the first update the union's lg_k is the smaller of its own and the input's, it holds exactly one coupon, and that coupon is the input's folded to the union's lg_k - also when the larger-lg_k input arrives at an empty union (no adoption of the input's lg_k)
cpc_union_first!(c06_union_first_update_same_k, 5, 5, 1); //@ tier: quick
cpc_union_first!(c06_union_first_update_larger_input, 6, 5, 2); //@ tier: quick
cpc_union_first!(c06_union_first_update_smaller_input, 5, 6, 3); //@ tier: quick
//@ endfamily: x

macro_rules! cpc_union_sparse {
    ($name:ident, $lga:expr, $lgb:expr, $lgu:expr, $ha:expr, $hb:expr, $col:expr) => {
        #[kani::proof]
        #[kani::unwind(10)]
        #[kani::stub(CpcSketch::update_hip, cut_update_hip)]
        fn $name() {
            sparse_union_case($lga, $lgb, $lgu, $ha, $hb, $col);
        }
    };
}

//@ family: cpc_union_sparse
//@ props: C06 C17
//@ tier: thorough
//@ timeout: 1800
//@ functions: cpc::union::CpcUnion::update
//@ functions: cpc::union::CpcUnion::to_sketch
//@ functions: cpc::union::CpcUnion::reduce_k
//@ functions: cpc::union::CpcUnion::num_coupons
//@ functions: cpc::union::walk_table_updating_sketch
//@ functions: cpc::sketch::CpcSketch::row_col_update
//@ functions: cpc::pair_table::PairTable::maybe_insert
//@ unwind: 10
//@ stubs: CpcSketch::update_hip -> no-op (cut: f64 HIP accumulators are not read by the union; the merged result is estimated by ICON)
//@ bounds: two Sparse input sketches of one symbolic coupon each (any column, any row within the quarter of the rows given by the instance's home slots - concrete table layouts), lg_k (a, b, union) and home slots per instance: (5,5,5) adopt-then-walk, (6,5,5) larger input first into an empty union, (5,6,5) larger input second, (6,5,6) reduce_k of a non-empty accumulator; the union stays in accumulator (Sparse) form
//@ desc: after each update the union's lg_k is the smallest seen, its coupon count is the population count of the OR of the inputs' matrices folded to that lg_k, and to_sketch() is a merged Sparse sketch whose table holds exactly the folded coupons of the inputs (colliding coupons once) - for a Sparse sketch the table is the matrix
cpc_union_sparse!(c06_union_sparse_same_k, 5, 5, 5, 1, 1, true);
cpc_union_sparse!(c06_union_sparse_same_k_far, 5, 5, 5, 3, 0, false);
cpc_union_sparse!(c06_union_sparse_fold_first, 6, 5, 5, 2, 1, true);
cpc_union_sparse!(c06_union_sparse_fold_second, 5, 6, 5, 0, 3, false);
cpc_union_sparse!(c06_union_sparse_fold_collide, 5, 6, 5, 1, 2, true);
cpc_union_sparse!(c06_union_sparse_reduce_k, 6, 5, 6, 3, 3, true);
//@ endfamily: x

// ---------------------------------------------------------------------------------------------
// Any input into a union that already is a bit matrix (cases B, C, D of CpcUnion::update) at lg_k 4.
// ---------------------------------------------------------------------------------------------

/// source sketch of lg_k 4 with a concrete window offset, symbolic window bytes and a symbolic 4-slot
/// surprising-value table; returns it with the matrix it denotes (specification of the windowed encoding)
fn windowed_source(o: u8, sparse: bool) -> (CpcSketch, [u64; 16]) {
    let slots: [u32; 4] = kani::any();
    let mut i = 0;
    let mut n = 0;
    while i < 4 {
        if slots[i] != u32::MAX {
            kani::assume(slots[i] < (16 << 6));
            let col = (slots[i] & 63) as u8;
            kani::assume(col < o || col >= o + 8 || sparse);
            let mut j = 0;
            while j < i {
                kani::assume(slots[j] != slots[i]);
                j += 1;
            }
            n += 1;
        }
        i += 1;
    }
    kani::assume(n <= 3);
    let mut s = CpcSketch::new(4);
    let mut m = [0u64; 16];
    let early = if o == 0 { 0 } else { (1u64 << o) - 1 };
    if !sparse {
        let window: [u8; 16] = kani::any();
        s.sliding_window = window.to_vec();
        let mut r = 0;
        while r < 16 {
            m[r] = early | ((window[r] as u64) << o);
            r += 1;
        }
    }
    let mut i = 0;
    while i < 4 {
        if slots[i] != u32::MAX {
            m[(slots[i] >> 6) as usize] ^= 1u64 << (slots[i] & 63);
        }
        i += 1;
    }
    s.window_offset = o;
    s.surprising_value_table = Some(vt::raw_table(2, &slots));
    let c = popcount_rows(&m);
    s.num_coupons = c;
    kani::assume(c >= 1);
    kani::assume(crate::cpc::determine_correct_offset(4, c) == o);
    if sparse {
        kani::assume(crate::cpc::determine_flavor(4, c) == Flavor::Sparse);
    } else {
        kani::assume(crate::cpc::determine_flavor(4, c) > Flavor::Sparse);
    }
    (s, m)
}

fn matrix_union_case(o: u8, sparse: bool) {
    let dst: [u64; 16] = kani::any();
    let (src, m) = windowed_source(o, sparse);
    let mut u = CpcUnion::new(4);
    u.state = UnionState::BitMatrix(dst.to_vec());
    u.update(&src);
    assert!(u.lg_k() == 4);
    match &u.state {
        UnionState::BitMatrix(now) => {
            assert!(now.len() == 16);
            let mut r = 0;
            while r < 16 {
                assert!(now[r] == dst[r] | m[r], "union matrix is not the OR of the old matrix and the input's matrix");
                r += 1;
            }
        }
        UnionState::Accumulator(_) => {
            assert!(false, "a bit-matrix union fell back to an accumulator");
        }
    }
    assert!(u.num_coupons() == popcount_rows(&{
        let mut x = [0u64; 16];
        let mut r = 0;
        while r < 16 {
            x[r] = dst[r] | m[r];
            r += 1;
        }
        x
    }));
    kani::cover!(true);
    core::mem::forget((src, u));
}

macro_rules! cpc_union_matrix {
    ($name:ident, $o:expr, $sparse:expr) => {
        #[kani::proof]
        #[kani::unwind(18)]
        fn $name() {
            matrix_union_case($o, $sparse);
        }
    };
}

//@ family: cpc_union_matrix
//@ props: C06 C17
//@ tier: thorough
//@ timeout: 1800
//@ functions: cpc::union::CpcUnion::update
//@ functions: cpc::union::CpcUnion::num_coupons
//@ functions: cpc::union::or_table_into_matrix
//@ functions: cpc::union::or_window_into_matrix
//@ functions: cpc::union::or_matrix_into_matrix
//@ functions: cpc::sketch::CpcSketch::build_bit_matrix
//@ functions: cpc::sketch::CpcSketch::flavor
//@ unwind: 18
//@ bounds: union of lg_k 4 in bit-matrix form with all 16 rows symbolic; input sketch of lg_k 4 given by its fields: Sparse (1 coupon), or windowed with a concrete window offset per instance (0: Hybrid / Pinned, 1 and 3: Sliding), symbolic window bytes, <= 3 symbolic surprising values outside the window, coupon count consistent with offset and flavor
//@ desc: whatever the input's flavor, update() ORs exactly the matrix the input denotes (window bits shifted by the offset, early-zone default ones, surprising values flipped) into the union's matrix and the coupon count follows
cpc_union_matrix!(c06_union_matrix_sparse_input, 0, true);
cpc_union_matrix!(c06_union_matrix_hybrid_pinned_input, 0, false); //@ tier: quick
cpc_union_matrix!(c06_union_matrix_sliding_input_1, 1, false); //@ tier: quick
cpc_union_matrix!(c06_union_matrix_sliding_input_3, 3, false);
//@ endfamily: x

// ---------------------------------------------------------------------------------------------
// to_sketch() from a bit matrix
// ---------------------------------------------------------------------------------------------

fn to_sketch_case(base: [u64; 16], expect_offset: u8) {
    // two symbolic extra coupons in rows 3 and 9 (columns beyond the base pattern), so that the coupon
    // count - and with it the window offset - is concrete while the surprising values are symbolic
    let c1: u32 = kani::any();
    let c2: u32 = kani::any();
    kani::assume(c1 < 64 && c2 < 64);
    kani::assume(base[3] & (1u64 << c1) == 0 && base[9] & (1u64 << c2) == 0);
    let mut m = base;
    m[3] |= 1u64 << c1;
    m[9] |= 1u64 << c2;
    let c = popcount_rows(&m);
    let mut u = CpcUnion::new(4);
    u.state = UnionState::BitMatrix(m.to_vec());
    let r = u.to_sketch();
    assert!(r.lg_k() == 4 && r.num_coupons() == c, "to_sketch: wrong coupon count");
    assert!(r.merge_flag, "to_sketch: result not marked as merged");
    assert!(r.window_offset == expect_offset && r.window_offset == crate::cpc::determine_correct_offset(4, c));
    assert!(r.validate(), "to_sketch: result sketch is internally inconsistent");
    let back = r.build_bit_matrix();
    let mut i = 0;
    while i < 16 {
        assert!(back[i] == m[i], "to_sketch: the result sketch does not denote the union's matrix");
        i += 1;
    }
    let fic = r.first_interesting_column as u32;
    let low = if fic == 0 { 0 } else { (1u64 << fic) - 1 };
    let mut i = 0;
    while i < 16 {
        assert!(m[i] & low == low, "to_sketch: first_interesting_column skips a column that is not full");
        i += 1;
    }
    kani::cover!(c1 >= expect_offset as u32 + 8 && c2 < 8);
    core::mem::forget((r, back, u));
}

//@ props: C06 C17
//@ tier: thorough
//@ timeout: 7200
//@ functions: cpc::union::CpcUnion::to_sketch
//@ functions: cpc::pair_table::PairTable::maybe_insert
//@ functions: cpc::sketch::CpcSketch::build_bit_matrix
//@ functions: cpc::sketch::CpcSketch::validate
//@ bounds: union of lg_k 4 in bit-matrix form: a concrete base pattern of 6 coupons (window offset 0, Hybrid) plus two symbolic coupons (any free column of rows 3 and 9: inside or beyond the window)
//@ desc: to_sketch() builds a merged sketch with the matrix's coupon count, the offset that count demands, validate() true, whose reconstructed matrix is exactly the union's matrix, and whose first_interesting_column only skips full columns
#[kani::proof]
#[kani::unwind(18)]
fn c06_to_sketch_from_matrix_offset0() {
    let mut base = [0u64; 16];
    base[0] = 0b1;
    base[3] = 0b10;
    base[5] = 1u64 << 20;
    base[9] = 0b101;
    base[15] = 1u64 << 63;
    to_sketch_case(base, 0);
}

//@ props: C06 C17
//@ tier: thorough
//@ timeout: 7200
//@ functions: cpc::union::CpcUnion::to_sketch
//@ functions: cpc::pair_table::PairTable::maybe_insert
//@ functions: cpc::sketch::CpcSketch::build_bit_matrix
//@ functions: cpc::sketch::CpcSketch::validate
//@ bounds: union of lg_k 4 in bit-matrix form: a concrete base pattern of 54 coupons (window offset 1, Sliding; column 0 full except one surprising zero in row 7) plus two symbolic coupons (any free column of rows 3 and 9)
//@ desc: as c06_to_sketch_from_matrix_offset0, with a non-zero window offset: early-zone zeros and late ones both become surprising values
#[kani::proof]
#[kani::unwind(18)]
fn c06_to_sketch_from_matrix_offset1() {
    let mut base = [0b111u64; 16]; // 48
    base[7] = 0b110; // surprising zero in the early zone: 47
    base[1] |= 0b11000; // 49
    base[2] |= 0b11000; // 51
    base[4] |= 0b1000; // 52
    base[11] |= 1u64 << 40; // 53 (a late surprising one); +2 symbolic = 55 -> 8*55-304 = 136 -> offset 1
    to_sketch_case(base, 1);
}

// ---------------------------------------------------------------------------------------------
// Histories through the public sketch API (thorough: 10+ GB / 20+ min each)
// ---------------------------------------------------------------------------------------------

/// sketch of `n` symbolic distinct coupons at the given lg_k, with its model matrix folded to 16 rows
fn small_sketch(lg_k: u8, n: usize, model16: &mut [u64; 16]) -> CpcSketch {
    let mut s = CpcSketch::new(lg_k);
    let mut own = [0u64; 32];
    let mut i = 0;
    while i < n {
        let row: u32 = kani::any();
        let col: u32 = kani::any();
        kani::assume(row < (1u32 << lg_k) && col < 64);
        kani::assume(own[row as usize] & (1u64 << col) == 0);
        own[row as usize] |= 1u64 << col;
        s.row_col_update((row << 6) | col);
        model16[(row & 15) as usize] |= 1u64 << col;
        i += 1;
    }
    s
}

fn check_union_result(u: &CpcUnion, model: &[u64; 16]) {
    assert!(u.lg_k() == 4, "union lg_k is not the smallest lg_k seen");
    let c = popcount_rows(model);
    assert!(u.num_coupons() == c, "union coupon count is not the population count of the OR");
    let r = u.to_sketch();
    assert!(r.lg_k() == 4 && r.num_coupons() == c);
    assert!(r.validate(), "result sketch is internally inconsistent");
    if c > 0 {
        assert!(r.merge_flag, "result sketch not marked as merged");
    }
    let m = r.build_bit_matrix();
    let mut i = 0;
    while i < 16 {
        assert!(m[i] == model[i], "union result is not the OR of the inputs' matrices (folded)");
        i += 1;
    }
    assert!(r.window_offset == crate::cpc::determine_correct_offset(4, c));
    core::mem::forget((r, m));
}

fn union_case(lg_a: u8, n_a: usize, lg_b: u8, n_b: usize, lg_u: u8, both_orders: bool) {
    let mut model = [0u64; 16];
    let a = small_sketch(lg_a, n_a, &mut model);
    let model_a = model;
    let b = small_sketch(lg_b, n_b, &mut model);
    let mut u1 = CpcUnion::new(lg_u);
    u1.update(&a);
    if lg_a == 4 || lg_u == 4 {
        check_union_result(&u1, &model_a);
    }
    u1.update(&b);
    check_union_result(&u1, &model);
    if both_orders {
        // order independence and idempotence
        let mut u2 = CpcUnion::new(lg_u);
        u2.update(&b);
        u2.update(&a);
        u2.update(&b);
        check_union_result(&u2, &model);
        core::mem::forget(u2);
    }
    core::mem::forget((a, b, u1));
}

macro_rules! cpc_union_case {
    ($name:ident, $lga:expr, $na:expr, $lgb:expr, $nb:expr, $lgu:expr, $both:expr) => {
        #[kani::proof]
        #[kani::unwind(20)]
        #[kani::stub(CpcSketch::update_hip, cut_update_hip)]
        fn $name() {
            union_case($lga, $na, $lgb, $nb, $lgu, $both);
            kani::cover!(true);
        }
    };
}

//@ family: cpc_union_case
//@ props: C06 C17
//@ tier: thorough
//@ timeout: 5400
//@ functions: cpc::union::CpcUnion::update
//@ functions: cpc::union::CpcUnion::to_sketch
//@ functions: cpc::union::CpcUnion::reduce_k
//@ functions: cpc::union::CpcUnion::num_coupons
//@ functions: cpc::union::walk_table_updating_sketch
//@ functions: cpc::union::or_table_into_matrix
//@ functions: cpc::union::or_window_into_matrix
//@ unwind: 20
//@ stubs: CpcSketch::update_hip -> no-op (cut: f64 HIP accumulators are not read by the union; the merged result is estimated by ICON)
//@ bounds: two input sketches built through row_col_update from symbolic distinct (row, col) coupons: (lg_k, count) per instance - Sparse (1 coupon) and Hybrid (2 coupons at lg_k 4) inputs, equal lg_k and lg_k 5 folded into 4, union created at lg_k 4 or 5; the *_orders instance also runs the opposite input order with one input repeated. These exceed 14 GB on this machine (measured: out of memory after 20 min) and are kept for larger machines
//@ desc: after every update the union's result sketch represents exactly the OR of the inputs' matrices folded to the smallest lg_k: coupon count = popcount, validate() holds, marked as merged, window offset matches; (orders) independent of input order and repetition
cpc_union_case!(c06_union_history_sparse_sparse, 4, 1, 4, 1, 4, false);
cpc_union_case!(c06_union_history_sparse_sparse_orders, 4, 1, 4, 1, 4, true);
cpc_union_case!(c06_union_history_fold_first, 5, 1, 4, 1, 4, false);
cpc_union_case!(c06_union_history_hybrid_sparse, 4, 2, 4, 1, 4, false);
//@ endfamily: x

