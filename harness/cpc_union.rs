//@@ attach: cpc/union.rs
//@@ needs: cpc_pair_table.rs
// CpcUnion: OR kernels with row folding, golden-ratio table walk, to_sketch from a bit matrix.
use super::*;
use crate::cpc::pair_table::verif_kani_cpc_pair_table as vt;

//@ props: C06 C17
//@ tier: quick
//@ timeout: 900
//@ functions: cpc::union::or_matrix_into_matrix
//@ functions: cpc::union::or_window_into_matrix
//@ functions: cpc::union::or_table_into_matrix
//@ bounds: destination of 4 rows (lg 2), sources of 8 rows (lg 3, folded) and 4 rows (same size); all row contents, window bytes, window offset 0..=56 and a 4-slot surprising-value table (<= 3 items, rows < 8) symbolic. The kernels are parametric in lg_k; the public minimum 4 only changes the sizes
//@ desc: each kernel ORs the source into the destination with source rows folded modulo the destination size: dst'[r] = dst[r] | OR of src rows congruent to r (window bits shifted by the offset, table pairs as single bits); nothing else changes
#[kani::proof]
#[kani::unwind(10)]
fn c06_or_kernels_fold_rows() {
    let dst: [u64; 4] = kani::any();
    let src8: [u64; 8] = kani::any();
    let mut d = dst;
    or_matrix_into_matrix(&mut d, 2, &src8, 3);
    let mut r = 0;
    while r < 4 {
        assert!(d[r] == dst[r] | src8[r] | src8[r + 4], "matrix OR with down-sampling is not the folded OR");
        r += 1;
    }
    let src4: [u64; 4] = kani::any();
    let mut d = dst;
    or_matrix_into_matrix(&mut d, 2, &src4, 2);
    let mut r = 0;
    while r < 4 {
        assert!(d[r] == dst[r] | src4[r]);
        r += 1;
    }
    // window
    let win: [u8; 8] = kani::any();
    let off: u8 = kani::any();
    kani::assume(off <= 56);
    let mut d = dst;
    or_window_into_matrix(&mut d, 2, &win, off, 3);
    let mut r = 0;
    while r < 4 {
        assert!(d[r] == dst[r] | ((win[r] as u64) << off) | ((win[r + 4] as u64) << off), "window OR is not the folded, shifted OR");
        r += 1;
    }
    // table: pairs (row < 8, col < 64) in a 4-slot table
    let slots: [u32; 4] = kani::any();
    let mut i = 0;
    while i < 4 {
        kani::assume(slots[i] == u32::MAX || slots[i] < (8 << 6));
        i += 1;
    }
    let t = vt::raw_table(2, &slots);
    let mut d = dst;
    or_table_into_matrix(&mut d, 2, &t);
    let mut model = dst;
    let mut i = 0;
    while i < 4 {
        if slots[i] != u32::MAX {
            model[((slots[i] >> 6) & 3) as usize] |= 1u64 << (slots[i] & 63);
        }
        i += 1;
    }
    let mut r = 0;
    while r < 4 {
        assert!(d[r] == model[r], "table OR is not the folded OR of its pairs");
        r += 1;
    }
    kani::cover!(off == 56);
    core::mem::forget(t);
}

//@ props: C06 C17
//@ tier: quick
//@ timeout: 600
//@ functions: cpc::union::walk_table_updating_sketch
//@ bounds: every table size 2^2..=2^26 (the stride arithmetic, concrete loop over the 25 sizes)
//@ desc: the golden-ratio stride used to walk a source table is odd, >= 3 and < the table size, hence coprime with the power-of-two size: the walk visits every slot exactly once and its assertions never fire
#[kani::proof]
#[kani::unwind(30)]
fn c06_walk_stride_arithmetic() {
    let mut lg = 2u32;
    while lg <= 26 {
        let num_slots: u32 = 1 << lg;
        let mut stride = (0.6180339887498949 * (num_slots as f64)) as u32;
        assert!(stride >= 2);
        if stride == ((stride >> 1) << 1) {
            stride += 1;
        }
        assert!(stride >= 3 && stride < num_slots && stride % 2 == 1);
        lg += 1;
    }
    kani::cover!(true);
}
