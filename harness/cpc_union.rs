//@@ attach: cpc/union.rs
//@@ needs: cpc_pair_table.rs
// CpcUnion: OR kernels with row folding, golden-ratio table walk, to_sketch from a bit matrix.
use super::*;
use crate::cpc::pair_table::verif_kani_cpc_pair_table as vt;

//@ props: C06 C17
//@ tier: quick
//@ timeout: 900
//@ functions: cpc::union::or_matrix_into_matrix
//@ functions: cpc::union::or_window_into_matrix
//@ functions: cpc::union::or_table_into_matrix
//@ bounds: destination of 4 rows (lg 2), sources of 8 rows (lg 3, folded) and 4 rows (same size); all row contents, window bytes, window offset 0..=56 and a 4-slot surprising-value table (<= 3 items, rows < 8) symbolic. The kernels are parametric in lg_k; the public minimum 4 only changes the sizes
//@ desc: each kernel ORs the source into the destination with source rows folded modulo the destination size: dst'[r] = dst[r] | OR of src rows congruent to r (window bits shifted by the offset, table pairs as single bits); nothing else changes
#[kani::proof]
#[kani::unwind(10)]
fn c06_or_kernels_fold_rows() {
    let dst: [u64; 4] = kani::any();
    let src8: [u64; 8] = kani::any();
    let mut d = dst;
    or_matrix_into_matrix(&mut d, 2, &src8, 3);
    let mut r = 0;
    while r < 4 {
        assert!(d[r] == dst[r] | src8[r] | src8[r + 4], "matrix OR with down-sampling is not the folded OR");
        r += 1;
    }
    let src4: [u64; 4] = kani::any();
    let mut d = dst;
    or_matrix_into_matrix(&mut d, 2, &src4, 2);
    let mut r = 0;
    while r < 4 {
        assert!(d[r] == dst[r] | src4[r]);
        r += 1;
    }
    // window
    let win: [u8; 8] = kani::any();
    let off: u8 = kani::any();
    kani::assume(off <= 56);
    let mut d = dst;
    or_window_into_matrix(&mut d, 2, &win, off, 3);
    let mut r = 0;
    while r < 4 {
        assert!(d[r] == dst[r] | ((win[r] as u64) << off) | ((win[r + 4] as u64) << off), "window OR is not the folded, shifted OR");
        r += 1;
    }
    // table: pairs (row < 8, col < 64) in a 4-slot table
    let slots: [u32; 4] = kani::any();
    let mut i = 0;
    while i < 4 {
        kani::assume(slots[i] == u32::MAX || slots[i] < (8 << 6));
        i += 1;
    }
    let t = vt::raw_table(2, &slots);
    let mut d = dst;
    or_table_into_matrix(&mut d, 2, &t);
    let mut model = dst;
    let mut i = 0;
    while i < 4 {
        if slots[i] != u32::MAX {
            model[((slots[i] >> 6) & 3) as usize] |= 1u64 << (slots[i] & 63);
        }
        i += 1;
    }
    let mut r = 0;
    while r < 4 {
        assert!(d[r] == model[r], "table OR is not the folded OR of its pairs");
        r += 1;
    }
    kani::cover!(off == 56);
    core::mem::forget(t);
}

//@ props: C06 C17
//@ tier: quick
//@ timeout: 600
//@ functions: cpc::union::walk_table_updating_sketch
//@ bounds: every table size 2^2..=2^26 (the stride arithmetic, concrete loop over the 25 sizes)
//@ desc: the golden-ratio stride used to walk a source table is odd, >= 3 and < the table size, hence coprime with the power-of-two size: the walk visits every slot exactly once and its assertions never fire
#[kani::proof]
#[kani::unwind(30)]
fn c06_walk_stride_arithmetic() {
    let mut lg = 2u32;
    while lg <= 26 {
        let num_slots: u32 = 1 << lg;
        let mut stride = (0.6180339887498949 * (num_slots as f64)) as u32;
        assert!(stride >= 2);
        if stride == ((stride >> 1) << 1) {
            stride += 1;
        }
        assert!(stride >= 3 && stride < num_slots && stride % 2 == 1);
        lg += 1;
    }
    kani::cover!(true);
}

fn popcount_rows(m: &[u64]) -> u32 {
    let mut n = 0u32;
    let mut i = 0;
    while i < m.len() {
        let mut w = m[i];
        w = w - ((w >> 1) & 0x5555555555555555);
        w = (w & 0x3333333333333333) + ((w >> 2) & 0x3333333333333333);
        w = (w + (w >> 4)) & 0x0f0f0f0f0f0f0f0f;
        w = w + (w >> 8);
        w = w + (w >> 16);
        w = w + (w >> 32);
        n += (w & 0x7f) as u32;
        i += 1;
    }
    n
}

/// sketch of `n` symbolic distinct coupons at the given lg_k, with its model matrix folded to 16 rows
fn small_sketch(lg_k: u8, n: usize, model16: &mut [u64; 16]) -> CpcSketch {
    let mut s = CpcSketch::new(lg_k);
    let mut own = [0u64; 32];
    let mut i = 0;
    while i < n {
        let row: u32 = kani::any();
        let col: u32 = kani::any();
        kani::assume(row < (1u32 << lg_k) && col < 64);
        kani::assume(own[row as usize] & (1u64 << col) == 0);
        own[row as usize] |= 1u64 << col;
        s.row_col_update((row << 6) | col);
        model16[(row & 15) as usize] |= 1u64 << col;
        i += 1;
    }
    s
}

fn check_union_result(u: &CpcUnion, model: &[u64; 16]) {
    assert!(u.lg_k() == 4, "union lg_k is not the smallest lg_k seen");
    let c = popcount_rows(model);
    assert!(u.num_coupons() == c, "union coupon count is not the population count of the OR");
    let r = u.to_sketch();
    assert!(r.lg_k() == 4 && r.num_coupons() == c);
    assert!(r.validate(), "result sketch is internally inconsistent");
    if c > 0 {
        assert!(r.merge_flag, "result sketch not marked as merged");
    }
    let m = r.build_bit_matrix();
    let mut i = 0;
    while i < 16 {
        assert!(m[i] == model[i], "union result is not the OR of the inputs' matrices (folded)");
        i += 1;
    }
    assert!(r.window_offset == crate::cpc::determine_correct_offset(4, c));
    core::mem::forget((r, m));
}

/// cut: the HIP accumulators (kxp, hip_est_accum; f64) of input sketches are not read by the union and the
/// merged result's estimator is ICON (C01, outside); removing the float updates is what makes these fit
fn cut_update_hip(_s: &mut CpcSketch, _row_col: u32) {}

fn union_case(lg_a: u8, n_a: usize, lg_b: u8, n_b: usize, lg_u: u8, both_orders: bool) {
    let mut model = [0u64; 16];
    let a = small_sketch(lg_a, n_a, &mut model);
    let model_a = model;
    let b = small_sketch(lg_b, n_b, &mut model);
    let mut u1 = CpcUnion::new(lg_u);
    u1.update(&a);
    if lg_a == 4 || lg_u == 4 {
        check_union_result(&u1, &model_a);
    }
    u1.update(&b);
    check_union_result(&u1, &model);
    if both_orders {
        // order independence and idempotence
        let mut u2 = CpcUnion::new(lg_u);
        u2.update(&b);
        u2.update(&a);
        u2.update(&b);
        check_union_result(&u2, &model);
        core::mem::forget(u2);
    }
    core::mem::forget((a, b, u1));
}

macro_rules! cpc_union_case {
    ($name:ident, $lga:expr, $na:expr, $lgb:expr, $nb:expr, $lgu:expr, $both:expr) => {
        #[kani::proof]
        #[kani::unwind(20)]
        #[kani::stub(CpcSketch::update_hip, cut_update_hip)]
        fn $name() {
            union_case($lga, $na, $lgb, $nb, $lgu, $both);
            kani::cover!(true);
        }
    };
}

//@ family: cpc_union_case
//@ props: C06 C17
//@ tier: thorough
//@ timeout: 3600
//@ functions: cpc::union::CpcUnion::update
//@ functions: cpc::union::CpcUnion::to_sketch
//@ functions: cpc::union::CpcUnion::reduce_k
//@ functions: cpc::union::CpcUnion::num_coupons
//@ functions: cpc::union::walk_table_updating_sketch
//@ functions: cpc::union::or_table_into_matrix
//@ functions: cpc::union::or_window_into_matrix
//@ unwind: 20
//@ stubs: CpcSketch::update_hip -> no-op (cut: f64 HIP accumulators are not read by the union; the merged result is estimated by ICON)
//@ bounds: two input sketches built from symbolic distinct (row, col) coupons: (lg_k, count) per instance - Sparse (1 coupon) and Hybrid (2 coupons at lg_k 4) inputs, equal lg_k and lg_k 5 folded into 4, union created at lg_k 4 or 5 (reduce_k path); the *_orders instances also run the opposite input order with one input repeated
//@ desc: after every update the union's result sketch represents exactly the OR of the inputs' matrices folded to the smallest lg_k: coupon count = popcount, validate() holds, marked as merged, window offset matches; (orders) independent of input order and repetition
cpc_union_case!(c06_union_sparse_sparse, 4, 1, 4, 1, 4, false); //@ tier: quick
cpc_union_case!(c06_union_sparse_sparse_orders, 4, 1, 4, 1, 4, true);
cpc_union_case!(c06_union_sparse_fold, 4, 1, 5, 1, 4, false);
cpc_union_case!(c06_union_reduce_k, 5, 1, 4, 1, 5, false);
cpc_union_case!(c06_union_hybrid_sparse, 4, 2, 4, 1, 4, false);
//@ endfamily: x
