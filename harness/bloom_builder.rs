//@@ attach: bloom/builder.rs
use super::*;

//@ props: C09 C17 C18
//@ tier: quick
//@ timeout: 600
//@ functions: bloom::BloomFilterBuilder::with_size
//@ functions: bloom::BloomFilterBuilder::seed
//@ functions: bloom::BloomFilterBuilder::build
//@ functions: bloom::BloomFilter::capacity
//@ functions: bloom::BloomFilter::num_hashes
//@ functions: bloom::BloomFilter::seed
//@ functions: bloom::BloomFilter::bits_used
//@ bounds: every num_bits in 1..=256 (incl. non-multiples of 64), every num_hashes in 1..=32767, every seed
//@ desc: build() allocates ceil(num_bits/64) words (capacity >= num_bits, < num_bits + 64), keeps num_hashes and seed, and starts empty with bits_used = 0; the size is fixed at construction
#[kani::proof]
#[kani::unwind(6)]
fn c09_builder_with_size() {
    let num_bits: u64 = kani::any();
    kani::assume(num_bits >= 1 && num_bits <= 256);
    let k: u16 = kani::any();
    kani::assume(k >= 1 && k <= 32767);
    let seed: u64 = kani::any();
    let f = BloomFilterBuilder::with_size(num_bits, k).seed(seed).build();
    assert!(f.capacity() as u64 >= num_bits && (f.capacity() as u64) < num_bits + 64, "capacity is not num_bits rounded up to a word");
    assert!(f.capacity() % 64 == 0);
    assert!(f.num_hashes() == k && f.seed() == seed);
    assert!(f.bits_used() == 0 && f.is_empty());
    kani::cover!(num_bits == 65);
    kani::cover!(num_bits == 256);
    core::mem::forget(f);
}
