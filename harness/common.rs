//@@ attach: lib.rs
// Shared helpers for all harness modules (attached at the crate root as crate::verif_kani_common).
#![allow(dead_code)]

/// Stub for `alloc::fmt::format`: error messages are not the subject of any property; building them
/// symbolically is what makes parser harnesses explode (see DESIGN 2.3).
pub fn stub_format(_args: core::fmt::Arguments<'_>) -> String {
    String::new()
}

/// Stub for `Vec::with_capacity`: an empty vector without the reservation. Capacity is a hint, not observable
/// behaviour. Parsers reserve `min(count, CAP)` elements with `count` read from the image: an allocation of
/// symbolic size, after which every push has a symbolic `len == capacity` test and a reallocation of symbolic
/// size behind it (measured: a 48-byte theta image > 14 GB). With the stub, vectors grow 0 -> 4 -> 8 with
/// concrete sizes.
pub fn stub_with_capacity<T>(_capacity: usize) -> Vec<T> {
    Vec::new()
}

/// Uninterpreted-function abstraction of 64-bit multiplication (hand Ackermannisation).
/// Every call returns a fresh symbolic value constrained to agree with all earlier calls on equal
/// arguments. A proof under this stub holds for every interpretation of `wrapping_mul`.
pub const UF_CAP: usize = 112;
pub static mut UF_A: [u64; UF_CAP] = [0; UF_CAP];
pub static mut UF_B: [u64; UF_CAP] = [0; UF_CAP];
pub static mut UF_R: [u64; UF_CAP] = [0; UF_CAP];
pub static mut UF_N: usize = 0;

pub fn uf_reset() {
    unsafe {
        UF_N = 0;
    }
}

#[allow(static_mut_refs)]
pub fn uf_mul(a: u64, b: u64) -> u64 {
    let r: u64 = kani::any();
    unsafe {
        let n = UF_N;
        assert!(n < UF_CAP, "verif: UF table too small");
        let mut i = 0;
        while i < n {
            if UF_A[i] == a && UF_B[i] == b {
                kani::assume(r == UF_R[i]);
            }
            i += 1;
        }
        UF_A[n] = a;
        UF_B[n] = b;
        UF_R[n] = r;
        UF_N = n + 1;
    }
    r
}

/// Reference MurmurHash3 x64 128 (Appleby's MurmurHash3_x64_128 with a 64-bit seed used for both
/// h1 and h2, as DataSketches does), written for a whole byte string at once.
pub mod refhash {
    const C1: u64 = 0x87c37b91114253d5;
    const C2: u64 = 0x4cf5ad432745937f;

    fn rd(b: &[u8], off: usize, n: usize) -> u64 {
        let mut v: u64 = 0;
        let mut i = 0;
        while i < n {
            v |= (b[off + i] as u64) << (8 * i);
            i += 1;
        }
        v
    }

    fn fmix(mut k: u64) -> u64 {
        k ^= k >> 33;
        k = k.wrapping_mul(0xff51afd7ed558ccd);
        k ^= k >> 33;
        k = k.wrapping_mul(0xc4ceb9fe1a85ec53);
        k ^= k >> 33;
        k
    }

    pub fn murmur3_x64_128(data: &[u8], len: usize, seed: u64) -> (u64, u64) {
        let mut h1 = seed;
        let mut h2 = seed;
        let nblocks = len / 16;
        let mut i = 0;
        while i < nblocks {
            let mut k1 = rd(data, i * 16, 8);
            let mut k2 = rd(data, i * 16 + 8, 8);
            k1 = k1.wrapping_mul(C1);
            k1 = k1.rotate_left(31);
            k1 = k1.wrapping_mul(C2);
            h1 ^= k1;
            h1 = h1.rotate_left(27);
            h1 = h1.wrapping_add(h2);
            h1 = h1.wrapping_mul(5).wrapping_add(0x52dce729);
            k2 = k2.wrapping_mul(C2);
            k2 = k2.rotate_left(33);
            k2 = k2.wrapping_mul(C1);
            h2 ^= k2;
            h2 = h2.rotate_left(31);
            h2 = h2.wrapping_add(h1);
            h2 = h2.wrapping_mul(5).wrapping_add(0x38495ab5);
            i += 1;
        }
        let tail = nblocks * 16;
        let rem = len - tail;
        if rem > 8 {
            let mut k2 = rd(data, tail + 8, rem - 8);
            k2 = k2.wrapping_mul(C2);
            k2 = k2.rotate_left(33);
            k2 = k2.wrapping_mul(C1);
            h2 ^= k2;
        }
        if rem > 0 {
            let n = if rem > 8 { 8 } else { rem };
            let mut k1 = rd(data, tail, n);
            k1 = k1.wrapping_mul(C1);
            k1 = k1.rotate_left(31);
            k1 = k1.wrapping_mul(C2);
            h1 ^= k1;
        }
        h1 ^= len as u64;
        h2 ^= len as u64;
        h1 = h1.wrapping_add(h2);
        h2 = h2.wrapping_add(h1);
        h1 = fmix(h1);
        h2 = fmix(h2);
        h1 = h1.wrapping_add(h2);
        h2 = h2.wrapping_add(h1);
        (h1, h2)
    }

    const P1: u64 = 0x9E3779B185EBCA87;
    const P2: u64 = 0xC2B2AE3D27D4EB4F;
    const P3: u64 = 0x165667B19E3779F9;
    const P4: u64 = 0x85EBCA77C2B2AE63;
    const P5: u64 = 0x27D4EB2F165667C5;

    fn xround(acc: u64, input: u64) -> u64 {
        acc.wrapping_add(input.wrapping_mul(P2)).rotate_left(31).wrapping_mul(P1)
    }

    fn xmerge(acc: u64, val: u64) -> u64 {
        (acc ^ xround(0, val)).wrapping_mul(P1).wrapping_add(P4)
    }

    /// Reference XXH64 (Collet's specification, section "XXH64 algorithm description").
    pub fn xxh64(data: &[u8], len: usize, seed: u64) -> u64 {
        let mut off = 0;
        let mut h: u64;
        if len >= 32 {
            let mut v1 = seed.wrapping_add(P1).wrapping_add(P2);
            let mut v2 = seed.wrapping_add(P2);
            let mut v3 = seed;
            let mut v4 = seed.wrapping_sub(P1);
            while off + 32 <= len {
                v1 = xround(v1, rd(data, off, 8));
                v2 = xround(v2, rd(data, off + 8, 8));
                v3 = xround(v3, rd(data, off + 16, 8));
                v4 = xround(v4, rd(data, off + 24, 8));
                off += 32;
            }
            h = v1
                .rotate_left(1)
                .wrapping_add(v2.rotate_left(7))
                .wrapping_add(v3.rotate_left(12))
                .wrapping_add(v4.rotate_left(18));
            h = xmerge(h, v1);
            h = xmerge(h, v2);
            h = xmerge(h, v3);
            h = xmerge(h, v4);
        } else {
            h = seed.wrapping_add(P5);
        }
        h = h.wrapping_add(len as u64);
        while off + 8 <= len {
            h ^= xround(0, rd(data, off, 8));
            h = h.rotate_left(27).wrapping_mul(P1).wrapping_add(P4);
            off += 8;
        }
        if off + 4 <= len {
            h ^= rd(data, off, 4).wrapping_mul(P1);
            h = h.rotate_left(23).wrapping_mul(P2).wrapping_add(P3);
            off += 4;
        }
        while off < len {
            h ^= (data[off] as u64).wrapping_mul(P5);
            h = h.rotate_left(11).wrapping_mul(P1);
            off += 1;
        }
        h ^= h >> 33;
        h = h.wrapping_mul(P2);
        h ^= h >> 29;
        h = h.wrapping_mul(P3);
        h ^= h >> 32;
        h
    }
}

// ---------------------------------------------------------------------------------------------
// Reference models of std sorting / selection (stub targets). std's pattern-defeating quicksort and
// introselect do not get through symbolic execution even for 4 elements (> 300 s); these insertion-sort
// models satisfy the documented contracts of the std functions they replace and are part of the claim
// wherever they are listed as stubs.
// ---------------------------------------------------------------------------------------------

/// contract of `<[T]>::sort_unstable`: ascending order, a permutation of the input
pub fn model_sort_unstable<T: Ord>(s: &mut [T]) {
    let n = s.len();
    let mut i = 1;
    while i < n {
        let mut j = i;
        while j > 0 && s[j - 1] > s[j] {
            s.swap(j - 1, j);
            j -= 1;
        }
        i += 1;
    }
}

/// contract of `<[T]>::select_nth_unstable`: element k is the one a full sort would put there, everything
/// before it is <= it, everything after it is >= it
pub fn model_select_nth<T: Ord>(s: &mut [T], k: usize) -> (&mut [T], &mut T, &mut [T]) {
    model_sort_unstable(s);
    let (l, rest) = s.split_at_mut(k);
    let (m, r) = rest.split_first_mut().unwrap();
    (l, m, r)
}

/// contract of `<[T]>::sort_by` (stable)
pub fn model_sort_by<T, F: FnMut(&T, &T) -> core::cmp::Ordering>(s: &mut [T], mut f: F) {
    let n = s.len();
    let mut i = 1;
    while i < n {
        let mut j = i;
        while j > 0 && f(&s[j - 1], &s[j]) == core::cmp::Ordering::Greater {
            s.swap(j - 1, j);
            j -= 1;
        }
        i += 1;
    }
}

/// contract of `<[T]>::sort_by_key` (stable)
pub fn model_sort_by_key<T, K: Ord, F: FnMut(&T) -> K>(s: &mut [T], mut f: F) {
    let n = s.len();
    let mut i = 1;
    while i < n {
        let mut j = i;
        while j > 0 && f(&s[j - 1]) > f(&s[j]) {
            s.swap(j - 1, j);
            j -= 1;
        }
        i += 1;
    }
}

/// `Result::unwrap` without the cost: unwrap()'s failure path formats and drops the crate's Error
/// (a Vec<(&str, String)> whose drop glue alone unrolled 800+ loop iterations in symbolic execution).
pub fn expect_ok<T>(r: Result<T, crate::error::Error>, _msg: &'static str) -> T {
    match r {
        Ok(v) => v,
        Err(e) => {
            core::mem::forget(e);
            // (Kani requires a literal message; the caller's text says which image it was)
            kani::assert(false, "a valid image was rejected by deserialize (see the expect_ok call site)");
            kani::assume(false);
            loop {}
        }
    }
}
