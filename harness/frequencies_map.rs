//@@ attach: frequencies/reverse_purge_item_hash_map.rs
// ReversePurgeItemHashMap<u64> at size 8: every table layout satisfying the linear-probing invariant.
// The home slot of each key is symbolic (hash_item is replaced by a symbolic table HOME[key]), so the
// claims hold for every hash function; keys are drawn from a small domain 0..D.
#![allow(static_mut_refs)]
use super::*;

pub const D: usize = 8; // key domain
pub const N: usize = 8; // table size
pub static mut HOME: [u64; D] = [0; D];

struct IdHasher(u64);
impl Hasher for IdHasher {
    fn finish(&self) -> u64 {
        self.0
    }
    fn write(&mut self, bytes: &[u8]) {
        // u64 keys arrive as their 8 native-endian bytes
        let mut v = 0u64;
        let mut i = 0;
        while i < bytes.len() && i < 8 {
            v |= (bytes[i] as u64) << (8 * i);
            i += 1;
        }
        self.0 = v;
    }
}

/// stand-in for `hash_item`: an arbitrary but fixed function of the key (symbolic table)
pub fn verif_hash_item<T: Hash>(item: &T) -> u64 {
    let mut h = IdHasher(0);
    item.hash(&mut h);
    let id = h.0 as usize;
    assert!(id < D, "verif: key outside the harness domain");
    unsafe { HOME[id] }
}

pub fn init_home() {
    unsafe {
        let mut i = 0;
        while i < D {
            HOME[i] = kani::any();
            i += 1;
        }
    }
}

pub fn home(k: u64) -> usize {
    unsafe { (HOME[k as usize] as usize) & (N - 1) }
}

/// Representative occupancy layouts (drift states) of an 8-slot table; keys, home slots and values
/// stay symbolic. Fully symbolic layouts exhaust 14 GB in the purge / update / merge harnesses.
pub const LAYOUT_7_FLAT: [u16; 8] = [1, 1, 1, 1, 1, 1, 1, 0]; // every key at its home slot
pub const LAYOUT_7_CLUSTERS: [u16; 8] = [1, 2, 3, 1, 2, 1, 1, 0]; // collision chains of length 3 and 2
pub const LAYOUT_7_WRAP: [u16; 8] = [2, 3, 1, 1, 1, 0, 1, 1]; // a chain that wraps around the end
pub const LAYOUT_6_FLAT: [u16; 8] = [1, 1, 1, 0, 1, 1, 1, 0];
pub const LAYOUT_6_CLUSTERS: [u16; 8] = [1, 2, 3, 0, 1, 2, 1, 0];
pub const LAYOUT_6_WRAP: [u16; 8] = [2, 3, 0, 1, 1, 0, 1, 1];
pub const LAYOUT_3: [u16; 8] = [0, 1, 2, 0, 0, 1, 0, 0];
pub const LAYOUT_1: [u16; 8] = [0, 0, 0, 1, 0, 0, 0, 0];
pub const LAYOUT_0: [u16; 8] = [0; 8];

/// (key, value) stored in slot i
pub fn slot_of(m: &ReversePurgeItemHashMap<u64>, i: usize) -> (u64, u64) {
    (m.keys[i].unwrap(), m.values[i])
}

/// map with the given (concrete) drift states; keys / homes / values symbolic and invariant-satisfying
pub fn map_with_layout(layout: [u16; 8]) -> ReversePurgeItemHashMap<u64> {
    let mut keys: Vec<Option<u64>> = Vec::with_capacity(N);
    let mut values: Vec<u64> = Vec::with_capacity(N);
    let mut states: Vec<u16> = Vec::with_capacity(N);
    let mut n_active = 0usize;
    let mut i = 0;
    while i < N {
        let st = layout[i];
        if st > 0 {
            // keys are named in slot order (0, 1, 2, ...): which key sits where does not matter - the code
            // only compares keys for equality and looks up their (symbolic) home slots - so this is a
            // renaming, not a restriction; it keeps key comparisons concrete
            let k: u64 = n_active as u64;
            let v: u64 = kani::any();
            kani::assume(v >= 1 && v < (1u64 << 60));
            keys.push(Some(k));
            values.push(v);
            n_active += 1;
        } else {
            keys.push(None);
            values.push(0);
        }
        states.push(st);
        i += 1;
    }
    let m = ReversePurgeItemHashMap { lg_length: 3, load_threshold: 6, keys, values, states, num_active: n_active };
    kani::assume(map_invariant(&m));
    m
}

/// Symbolic map of size N satisfying the representation invariant of the linear-probing table.
pub fn any_map() -> ReversePurgeItemHashMap<u64> {
    let mut keys: Vec<Option<u64>> = Vec::with_capacity(N);
    let mut values: Vec<u64> = Vec::with_capacity(N);
    let mut states: Vec<u16> = Vec::with_capacity(N);
    let mut n_active = 0usize;
    let mut i = 0;
    while i < N {
        let st: u16 = kani::any();
        kani::assume(st as usize <= N);
        let k: u64 = kani::any();
        kani::assume((k as usize) < D);
        let v: u64 = kani::any();
        if st > 0 {
            kani::assume(v >= 1 && v < (1u64 << 60));
            keys.push(Some(k));
            values.push(v);
            n_active += 1;
        } else {
            keys.push(None);
            values.push(kani::any());
        }
        states.push(st);
        i += 1;
    }
    let m = ReversePurgeItemHashMap {
        lg_length: 3,
        load_threshold: 6,
        keys,
        values,
        states,
        num_active: n_active,
    };
    kani::assume(map_invariant(&m));
    m
}

/// states[i] = d > 0  =>  key present, home(key) = i-(d-1) mod N, no empty slot between home and i;
/// keys distinct; num_active = number of occupied slots.
pub fn map_invariant(m: &ReversePurgeItemHashMap<u64>) -> bool {
    if m.keys.len() != N || m.values.len() != N || m.states.len() != N {
        return false;
    }
    let mut cnt = 0;
    let mut i = 0;
    while i < N {
        let d = m.states[i] as usize;
        if d > 0 {
            cnt += 1;
            if d > N {
                return false;
            }
            let k = match m.keys[i] {
                Some(k) => k,
                None => return false,
            };
            if (k as usize) >= D {
                return false;
            }
            if home(k) != (i + N - (d - 1)) & (N - 1) {
                return false;
            }
            // no hole on the probe path
            let mut j = 1;
            while j < d {
                if m.states[(i + N - j) & (N - 1)] == 0 {
                    return false;
                }
                j += 1;
            }
            // distinct keys
            let mut j = i + 1;
            while j < N {
                if m.states[j] > 0 && m.keys[j] == Some(k) {
                    return false;
                }
                j += 1;
            }
        } else if m.keys[i].is_some() {
            return false;
        }
        i += 1;
    }
    cnt == m.num_active
}

/// abstract view: value of key k (0 if absent), by exhaustive scan (independent of probing)
pub fn model_get(m: &ReversePurgeItemHashMap<u64>, k: u64) -> u64 {
    let mut i = 0;
    while i < N {
        if m.states[i] > 0 && m.keys[i] == Some(k) {
            return m.values[i];
        }
        i += 1;
    }
    0
}

pub fn model_has(m: &ReversePurgeItemHashMap<u64>, k: u64) -> bool {
    let mut i = 0;
    while i < N {
        if m.states[i] > 0 && m.keys[i] == Some(k) {
            return true;
        }
        i += 1;
    }
    false
}

//@ props: C07 C17
//@ tier: quick
//@ timeout: 900
//@ functions: frequencies::ReversePurgeItemHashMap::adjust_or_put_value
//@ functions: frequencies::ReversePurgeItemHashMap::get
//@ functions: frequencies::ReversePurgeItemHashMap::hash_probe
//@ bounds: table of 8 slots, every layout satisfying the probing invariant with <= 6 active keys, key domain 0..8 with an arbitrary home slot per key, values in 1..2^60, adjust amount in 1..2^60
//@ assumes: representation invariant of the probing table (map_invariant) - shown inductive by this harness and c07_map_delete_step / c07_map_purge
//@ replay_stub: frequencies/reverse_purge_item_hash_map.rs | fn hash_item<T: Hash>(item: &T) -> u64 { | return self::verif_kani_frequencies_map::verif_hash_item(item);
//@ desc: adjust_or_put_value(k, a): value(k) += a (inserted if absent), every other key keeps its value, invariant preserved, num_active correct; get(k) agrees with the abstract map before and after
#[kani::proof]
#[kani::unwind(10)]
#[kani::stub(hash_item, verif_hash_item)]
fn c07_map_adjust_step() {
    init_home();
    let mut m = any_map();
    kani::assume(m.num_active <= 6);
    let k: u64 = kani::any();
    kani::assume((k as usize) < D);
    let other: u64 = kani::any();
    kani::assume((other as usize) < D && other != k);
    let a: u64 = kani::any();
    kani::assume(a >= 1 && a < (1u64 << 60));
    let before_k = model_get(&m, k);
    let before_o = model_get(&m, other);
    let had = model_has(&m, k);
    let n0 = m.num_active;
    assert!(m.get(&k) == before_k, "get disagrees with the abstract map");
    m.adjust_or_put_value(k, a);
    assert!(map_invariant(&m), "probing invariant broken by adjust_or_put_value");
    assert!(model_get(&m, k) == before_k + a, "value not adjusted");
    assert!(m.get(&k) == before_k + a, "get after adjust");
    assert!(model_get(&m, other) == before_o, "bystander key changed");
    assert!(m.get(&other) == before_o);
    assert!(m.num_active == n0 + if had { 0 } else { 1 });
    kani::cover!(had);
    kani::cover!(!had && n0 == 6);
    core::mem::forget(m);
}

//@ props: C07 C17
//@ tier: thorough
//@ timeout: 1800
//@ functions: frequencies::ReversePurgeItemHashMap::hash_delete
//@ bounds: table of 8 slots, every invariant-satisfying layout with <= 7 active keys, every occupied delete position
//@ assumes: representation invariant of the probing table (map_invariant)
//@ replay_stub: frequencies/reverse_purge_item_hash_map.rs | fn hash_item<T: Hash>(item: &T) -> u64 { | return self::verif_kani_frequencies_map::verif_hash_item(item);
//@ desc: hash_delete(p) (back-shift deletion) removes exactly the key at p: every other key is still found with its value, the invariant (no hole on any probe path, drift states correct) is preserved
#[kani::proof]
#[kani::unwind(10)]
#[kani::stub(hash_item, verif_hash_item)]
fn c07_map_delete_step() {
    init_home();
    let mut m = any_map();
    kani::assume(m.num_active <= 7);
    let p: usize = kani::any();
    kani::assume(p < N && m.states[p] > 0);
    let victim = m.keys[p].unwrap();
    let other: u64 = kani::any();
    kani::assume((other as usize) < D && other != victim);
    let before_o = model_get(&m, other);
    let had_o = model_has(&m, other);
    m.hash_delete(p);
    m.num_active -= 1; // the caller's bookkeeping (keep_only_positive_counts)
    assert!(map_invariant(&m), "probing invariant broken by hash_delete");
    assert!(!model_has(&m, victim), "deleted key still present");
    assert!(m.get(&victim) == 0);
    assert!(model_has(&m, other) == had_o, "bystander key lost or created by hash_delete");
    assert!(model_get(&m, other) == before_o);
    assert!(m.get(&other) == before_o, "bystander key no longer found after back-shift");
    kani::cover!(had_o && m.num_active >= 3);
    core::mem::forget(m);
}

fn purge_case(layout: [u16; 8]) {
    init_home();
    let mut m = map_with_layout(layout);
    let x: u64 = kani::any();
    kani::assume((x as usize) < D);
    let before_x = model_get(&m, x);
    let mut sum_before: u64 = 0;
    let mut i = 0;
    while i < N {
        if m.states[i] > 0 {
            sum_before += m.values[i];
        }
        i += 1;
    }
    let mut before = [0u64; 8];
    let mut i = 0;
    while i < N {
        if m.states[i] > 0 {
            before[i] = m.values[i];
        }
        i += 1;
    }
    let med = m.purge(6);
    assert!(med >= 1, "purge subtracted nothing");
    // the contract used by the sketch-level (abstract map) harnesses: the median is one of the values and
    // at least limit - mid = 3 values are >= it
    let mut ge = 0;
    let mut is_value = false;
    let mut i = 0;
    while i < N {
        if before[i] > 0 && before[i] >= med {
            ge += 1;
        }
        if before[i] == med {
            is_value = true;
        }
        i += 1;
    }
    assert!(is_value, "purge subtracted something that is not one of the counters");
    assert!(ge >= 3, "fewer than limit - mid counters are >= the subtracted median");
    assert!(map_invariant(&m), "probing invariant broken by purge");
    assert!(model_get(&m, x) == before_x.saturating_sub(med), "counter is not old (-) median");
    assert!(m.get(&x) == before_x.saturating_sub(med));
    let mut sum_after: u64 = 0;
    let mut i = 0;
    while i < N {
        if m.states[i] > 0 {
            assert!(m.values[i] >= 1, "zero counter survived the purge");
            sum_after += m.values[i];
        }
        i += 1;
    }
    // amortisation: the counters lose at least (limit - mid) * median = 3 * median in total
    assert!(sum_before - sum_after >= 3 * med, "purge removed less than 3 medians of weight");
    assert!(m.num_active <= 6, "purge left more than the map capacity");
    kani::cover!(m.num_active == 0);
    kani::cover!(m.num_active == 3);
    core::mem::forget(m);
}

macro_rules! purge_layout {
    ($name:ident, $layout:expr) => {
        #[kani::proof]
        #[kani::unwind(10)]
        #[kani::stub(hash_item, verif_hash_item)]
        #[kani::stub(<[u64]>::select_nth_unstable, crate::verif_kani_common::model_select_nth)]
        fn $name() {
            purge_case($layout);
        }
    };
}

//@ family: purge_layout
//@ props: C07 C17 C18
//@ tier: thorough
//@ timeout: 1800
//@ functions: frequencies::ReversePurgeItemHashMap::purge
//@ functions: frequencies::ReversePurgeItemHashMap::keep_only_positive_counts
//@ functions: frequencies::ReversePurgeItemHashMap::adjust_all_values_by
//@ functions: frequencies::ReversePurgeItemHashMap::hash_delete
//@ unwind: 10
//@ stubs: hash_item -> symbolic home table; select_nth_unstable -> reference model
//@ bounds: 8-slot table holding 7 keys (the only state in which a size-8 sketch purges) in the occupancy layout of the instance (flat / collision chains / wrap-around chain); keys, home slots and all 7 values (1..2^60) symbolic, sample size 6
//@ assumes: representation invariant of the probing table (map_invariant)
//@ replay_stub: frequencies/reverse_purge_item_hash_map.rs | fn hash_item<T: Hash>(item: &T) -> u64 { | return self::verif_kani_frequencies_map::verif_hash_item(item);
//@ desc: purge(6) returns m >= 1 such that every key's value becomes value (-) m (saturating), keys with value <= m disappear, the counters lose at least 3 medians of weight (amortisation), at most 6 keys remain, invariant preserved
purge_layout!(c07_map_purge_flat, LAYOUT_7_FLAT);
purge_layout!(c07_map_purge_clusters, LAYOUT_7_CLUSTERS);
purge_layout!(c07_map_purge_wrap, LAYOUT_7_WRAP);
//@ endfamily: x

// ---------------------------------------------------------------------------------------------
// Abstract map: the contract of the map operations, used (as stubs) by the sketch-level harnesses.
// The contracts are the statements the map-level harnesses above establish for the real code:
//   adjust_or_put_value(k, a): value(k) += a, every other key unchanged           (c07_map_adjust_step)
//   get(k): the key's value, 0 if absent                                           (c07_map_adjust_step)
//   purge(s): returns m = one of the current values with at least (limit - mid) values >= m,
//             limit = min(s, active, 1024), mid = limit / 2; every value becomes value (-) m   (c07_map_purge_*)
// A map whose `load_threshold` field carries ABS_TAG is abstract (its counters live in ABS); any other map
// is handled by re-implementations of the real lookups (only `other` of merge(), which is just iterated).
// ---------------------------------------------------------------------------------------------
pub const ABS_TAG: usize = 0xAB5;
pub static mut ABS: [u64; D] = [0; D];

pub fn id_of<T: Hash>(item: &T) -> usize {
    let mut h = IdHasher(0);
    item.hash(&mut h);
    let id = h.0 as usize;
    assert!(id < D, "verif: key outside the harness domain");
    id
}

pub fn abs_map() -> ReversePurgeItemHashMap<u64> {
    // the real arrays are never consulted for an abstract map
    ReversePurgeItemHashMap {
        lg_length: 3,
        load_threshold: ABS_TAG,
        keys: Vec::new(),
        values: Vec::new(),
        states: Vec::new(),
        num_active: 0,
    }
}

pub fn abs_adjust_or_put_value<T: Eq + Hash>(m: &mut ReversePurgeItemHashMap<T>, key: T, adjust_amount: u64) {
    assert!(m.load_threshold == ABS_TAG, "verif: adjust_or_put_value on a non-abstract map in an abstract harness");
    let id = id_of(&key);
    unsafe {
        ABS[id] += adjust_amount;
    }
    core::mem::forget(key);
}

pub fn abs_get<T: Eq + Hash>(m: &ReversePurgeItemHashMap<T>, key: &T) -> u64 {
    let id = id_of(key);
    if m.load_threshold == ABS_TAG {
        unsafe { ABS[id] }
    } else {
        // a real (concrete-layout) map: linear scan, equivalent to probing under the table invariant
        let mut i = 0;
        while i < m.keys.len() {
            if m.states[i] > 0 {
                if let Some(k) = &m.keys[i] {
                    if id_of(k) == id {
                        return m.values[i];
                    }
                }
            }
            i += 1;
        }
        0
    }
}

pub fn abs_num_active<T>(m: &ReversePurgeItemHashMap<T>) -> usize {
    if m.load_threshold == ABS_TAG {
        let mut n = 0;
        let mut i = 0;
        while i < D {
            if unsafe { ABS[i] } > 0 {
                n += 1;
            }
            i += 1;
        }
        n
    } else {
        m.num_active
    }
}

pub fn abs_purge<T: Eq + Hash>(m: &mut ReversePurgeItemHashMap<T>, sample_size: usize) -> u64 {
    assert!(m.load_threshold == ABS_TAG, "verif: purge on a non-abstract map in an abstract harness");
    let active = abs_num_active(m);
    let mut limit = if sample_size < active { sample_size } else { active };
    if limit > 1024 {
        limit = 1024;
    }
    let mid = limit / 2;
    let med: u64 = kani::any();
    let mut ge = 0usize;
    let mut is_value = false;
    let mut i = 0;
    while i < D {
        let v = unsafe { ABS[i] };
        if v > 0 && v >= med {
            ge += 1;
        }
        if v > 0 && v == med {
            is_value = true;
        }
        i += 1;
    }
    kani::assume(med >= 1 && is_value && ge >= limit - mid);
    let mut i = 0;
    while i < D {
        unsafe {
            ABS[i] = ABS[i].saturating_sub(med);
        }
        i += 1;
    }
    med
}
