//@@ attach: hll/array4.rs
//@@ needs: hll_estimator.rs hll_aux_map.rs
// Array4 at lg_k = 4: 4-bit offset-encoded registers + exception table. Abstract view: get(slot).
use super::*;
use crate::hll::aux_map::verif_kani_hll_aux_map as va;
use crate::hll::estimator::verif_kani_hll_estimator as ve;
use crate::hll::estimator::verif_kani_hll_estimator::rec_update;

/// arbitrary valid Array4 state at lg_k = 4 with at most 2 exceptions
pub(crate) fn any_array4() -> (Array4, [u8; 16]) {
    let bytes: [u8; 8] = kani::any();
    let cur_min: u8 = kani::any();
    kani::assume(cur_min <= 40);
    let aux_entries: [u32; 4] = kani::any();
    let aux = va::raw_aux(4, &aux_entries);
    kani::assume(va::aux_invariant(&aux));
    kani::assume(va::count(&aux) <= 2);
    let has_aux = va::count(&aux) > 0;
    let mut a = Array4 {
        lg_config_k: 4,
        bytes: bytes.to_vec().into_boxed_slice(),
        cur_min,
        num_at_cur_min: 0,
        aux_map: if has_aux { Some(aux) } else { kani::any::<bool>().then(|| va::raw_aux(4, &[0; 4])) },
        estimator: ve::raw_estimator(0.0, 16.0, 0.0, false),
    };
    // representation invariant: nibble 15 <=> slot has an exception with value >= cur_min + 15
    let mut model = [0u8; 16];
    let mut at_min = 0u32;
    let mut n_tokens = 0u32;
    let mut s = 0u32;
    while s < 16 {
        let raw = a.get_raw(s);
        if raw == AUX_TOKEN {
            n_tokens += 1;
            let v = match &a.aux_map {
                Some(m) => va::model_get(m, s),
                None => None,
            };
            kani::assume(v.is_some());
            let v = v.unwrap();
            kani::assume(v >= cur_min + 15 && v <= 63);
            model[s as usize] = v;
        } else {
            model[s as usize] = cur_min + raw;
            if raw == 0 {
                at_min += 1;
            }
        }
        s += 1;
    }
    let aux_count = match &a.aux_map {
        Some(m) => va::count(m),
        None => 0,
    };
    kani::assume(n_tokens == aux_count);
    a.num_at_cur_min = at_min;
    (a, model)
}

fn check_view(a: &Array4, model: &[u8; 16]) {
    let mut at_min = 0;
    let mut s = 0u32;
    while s < 16 {
        assert!(a.get(s) == model[s as usize], "register view differs from the per-slot maximum model");
        if model[s as usize] == a.cur_min {
            at_min += 1;
        }
        s += 1;
    }
    assert!(a.num_at_cur_min == at_min, "num_at_cur_min does not count the registers at cur_min");
}

fn cut_shift(_a: &mut Array4) {
    panic!("verif cut: shift_to_bigger_cur_min reached although >= 2 registers sit at cur_min");
}
fn cut_grow(_m: &mut crate::hll::aux_map::AuxMap) {
    panic!("verif cut: AuxMap::grow reached with <= 3 exceptions");
}

//@ props: C02 C17
//@ tier: quick
//@ timeout: 1800
//@ functions: hll::array4::Array4::update
//@ functions: hll::array4::Array4::get
//@ functions: hll::array4::Array4::get_raw
//@ functions: hll::array4::Array4::put_raw
//@ functions: hll::aux_map::AuxMap::insert
//@ functions: hll::aux_map::AuxMap::replace
//@ bounds: lg_k = 4: all 8 nibble bytes symbolic, cur_min 0..=40, <= 2 exceptions in any valid table layout; every coupon (value 1..=63); at least 2 registers at cur_min (so no cur_min shift - covered by c02_array4_shift)
//@ assumes: Array4 representation invariant: nibble 15 <=> exception entry with value >= cur_min+15; num_at_cur_min = number of registers equal to cur_min
//@ replay_stub: hll/estimator.rs | pub fn update(&mut self, lg_config_k: u8, old_value: u8, new_value: u8) { | return self::verif_kani_hll_estimator::rec_update(self, lg_config_k, old_value, new_value);
//@ desc: one Array4::update (all four cases: plain nibble, new exception, exception replaced, ignored): get(slot) = max(old, value), all other registers unchanged, num_at_cur_min tracked, estimator told (old, new) exactly when a register grows
#[kani::proof]
#[kani::unwind(18)]
#[kani::stub(crate::hll::estimator::HipEstimator::update, rec_update)]
#[kani::stub(Array4::shift_to_bigger_cur_min, cut_shift)]
#[kani::stub(crate::hll::aux_map::AuxMap::grow, cut_grow)]
fn c02_array4_update_no_shift() {
    let (mut a, mut model) = any_array4();
    kani::assume(a.num_at_cur_min >= 2);
    let slot26: u32 = kani::any();
    kani::assume(slot26 < (1 << 26));
    let value: u8 = kani::any();
    kani::assume(value >= 1 && value <= 63);
    let s = (slot26 & 15) as usize;
    let old = model[s];
    ve::rec_reset();
    a.update(crate::hll::pack_coupon(slot26, value));
    if value > old {
        model[s] = value;
        assert!(ve::rec_count() == 1 && ve::rec_get(0) == (4, old, value), "estimator not updated with (old, new)");
    } else {
        assert!(ve::rec_count() == 0, "estimator updated although no register grew");
    }
    check_view(&a, &model);
    kani::cover!(value > old && value >= a.cur_min + 15 && old < a.cur_min + 15); // new exception
    kani::cover!(value > old && old >= a.cur_min + 15); // exception replaced
    kani::cover!(value > old && value < a.cur_min + 15); // plain nibble
    core::mem::forget(a);
}

//@ props: C02 C17
//@ tier: quick
//@ timeout: 1800
//@ functions: hll::array4::Array4::shift_to_bigger_cur_min
//@ functions: hll::aux_map::AuxMap::into_iter
//@ functions: hll::aux_map::AuxMap::insert
//@ bounds: lg_k = 4, any valid state with no register at cur_min (the only state in which a shift happens), <= 2 exceptions, cur_min 0..=40
//@ assumes: Array4 representation invariant
//@ desc: shift_to_bigger_cur_min leaves every register value unchanged while cur_min grows by one: nibbles are decremented, exceptions that now fit move back into the nibbles, the others stay exceptions, num_at_cur_min is recounted; no internal assertion fires when exceptions are present
#[kani::proof]
#[kani::unwind(18)]
#[kani::stub(crate::hll::aux_map::AuxMap::grow, cut_grow)]
fn c02_array4_shift() {
    let (mut a, model) = any_array4();
    kani::assume(a.num_at_cur_min == 0);
    let c0 = a.cur_min;
    let had_aux = a.aux_map.as_ref().map(|m| va::count(m)).unwrap_or(0);
    a.shift_to_bigger_cur_min();
    assert!(a.cur_min == c0 + 1);
    check_view(&a, &model);
    // an exception survives exactly when its value still needs more than a nibble
    let mut need = 0;
    let mut s = 0;
    while s < 16 {
        if model[s] >= a.cur_min + 15 {
            need += 1;
            assert!(a.get_raw(s as u32) == AUX_TOKEN);
        } else {
            assert!(a.get_raw(s as u32) == model[s] - a.cur_min);
        }
        s += 1;
    }
    let have = a.aux_map.as_ref().map(|m| va::count(m)).unwrap_or(0);
    assert!(have == need, "exception table does not hold exactly the registers that need it");
    kani::cover!(had_aux == 2 && have == 1);
    kani::cover!(had_aux == 1 && have == 1);
    core::mem::forget(a);
}

// ---------------------------------------------------------------------------------------------
// Hll4 images: round trip + layout (C11/C12/C18) and the updatable aux-table variant (C13)
// ---------------------------------------------------------------------------------------------
use crate::verif_kani_common::stub_format;

fn rd_u32(b: &[u8], o: usize) -> u32 {
    (b[o] as u32) | ((b[o + 1] as u32) << 8) | ((b[o + 2] as u32) << 16) | ((b[o + 3] as u32) << 24)
}

fn same_registers(a: &Array4, model: &[u8; 16]) {
    let mut s = 0u32;
    while s < 16 {
        assert!(a.get(s) == model[s as usize], "deserialized Hll4 register differs from the encoded one");
        s += 1;
    }
}

//@ props: C11 C12 C13 C18
//@ tier: quick
//@ timeout: 2400
//@ functions: hll::array4::Array4::serialize
//@ functions: hll::array4::Array4::deserialize
//@ functions: hll::sketch::HllSketch::deserialize
//@ functions: hll::aux_map::AuxMap::iter
//@ bounds: lg_k = 4: any valid Hll4 state with all 8 nibble bytes symbolic, cur_min 0..=40 and 0..=2 exceptions (any aux table layout)
//@ assumes: Array4 representation invariant (any_array4)
//@ desc: the Hll4 image is 40 + k/2 + 4*aux bytes: preInts 10, serVer 1, family 7, lgK, COMPACT flag set (the aux map is written as a pair list), curMin @6, mode byte HLL|Hll4, numAtCurMin @32, auxCount @36, nibbles @40, then (slot | value << 26) pairs; deserializing it restores every register, cur_min, num_at_cur_min and the exception count; the same state encoded in the updatable form (COMPACT flag clear, aux map as a 4-int hash table with empty slots, lgArr = 2 in byte 4) decodes to the same registers
#[kani::proof]
#[kani::unwind(20)]
#[kani::stub(alloc::fmt::format, stub_format)]
#[kani::stub(crate::hll::aux_map::AuxMap::grow, cut_grow)]
fn c11_hll_array4_roundtrip_layout() {
    let (a, model) = any_array4();
    let n_aux = a.aux_map.as_ref().map(|m| va::count(m)).unwrap_or(0) as usize;
    let bytes = a.serialize(4);
    assert!(bytes.len() == 40 + 8 + 4 * n_aux, "Hll4 image is not 40 + k/2 + 4*aux bytes");
    assert!(bytes[0] == 10 && bytes[1] == 1 && bytes[2] == 7 && bytes[3] == 4, "preInts / serVer / family / lgK");
    assert!(bytes[5] & 8 != 0, "COMPACT flag: the aux map is written as a pair list");
    assert!(bytes[5] & 4 == 0 && bytes[5] & 16 == 0);
    assert!(bytes[6] == a.cur_min, "curMin field");
    assert!(bytes[7] == 2, "mode byte: HLL mode, Hll4");
    assert!(rd_u32(&bytes, 32) == a.num_at_cur_min && rd_u32(&bytes, 36) as usize == n_aux, "numAtCurMin / auxCount");
    let mut i = 0;
    while i < 8 {
        assert!(bytes[40 + i] == a.bytes[i], "nibble byte");
        i += 1;
    }
    let mut i = 0;
    while i < n_aux {
        let c = rd_u32(&bytes, 48 + 4 * i);
        let slot = (c & 0x3ff_ffff) as usize;
        assert!(slot < 16 && (c >> 26) as u8 == model[slot] && a.get_raw(slot as u32) == AUX_TOKEN, "aux pair is not (slot, value) of an exception register");
        i += 1;
    }
    // round trip through the public entry point
    let mut img = [0u8; 56];
    let mut i = 0;
    while i < 56 {
        if i < bytes.len() {
            img[i] = bytes[i];
        }
        i += 1;
    }
    let g = crate::verif_kani_common::expect_ok(crate::hll::sketch::HllSketch::deserialize(&img[..48 + 4 * n_aux]), "own Hll4 image rejected");
    match g.mode() {
        crate::hll::mode::Mode::Array4(b) => {
            same_registers(b, &model);
            assert!(b.cur_min == a.cur_min && b.num_at_cur_min == a.num_at_cur_min, "cur_min / num_at_cur_min changed");
            assert!(b.aux_map.as_ref().map(|m| va::count(m)).unwrap_or(0) as usize == n_aux, "exception count changed");
        }
        _ => panic!("Hll4 image decoded to another mode"),
    }
    // updatable form: aux as a hash table of 4 ints (pairs at arbitrary positions, the rest empty)
    if n_aux >= 1 {
        let mut upd = [0u8; 64];
        let mut i = 0;
        while i < 48 {
            upd[i] = bytes[i];
            i += 1;
        }
        upd[4] = 2; // lgAuxArrInts
        upd[5] &= !8; // not compact
        let p0: usize = kani::any();
        let p1: usize = kani::any();
        kani::assume(p0 < 4 && p1 < 4 && p0 != p1);
        let mut j = 0;
        while j < 4 {
            upd[48 + 4 * p0 + j] = bytes[48 + j];
            if n_aux == 2 {
                upd[48 + 4 * p1 + j] = bytes[52 + j];
            }
            j += 1;
        }
        let g2 = crate::verif_kani_common::expect_ok(crate::hll::sketch::HllSketch::deserialize(&upd), "valid updatable Hll4 image rejected");
        match g2.mode() {
            crate::hll::mode::Mode::Array4(b) => same_registers(b, &model),
            _ => panic!("Hll4 image decoded to another mode"),
        }
        core::mem::forget(g2);
    }
    kani::cover!(n_aux == 2);
    kani::cover!(n_aux == 0);
    core::mem::forget((a, g, bytes));
}
