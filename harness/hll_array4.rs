//@@ attach: hll/array4.rs
//@@ needs: hll_estimator.rs hll_aux_map.rs
// Array4 at lg_k = 4: 4-bit offset-encoded registers + exception table. Abstract view: get(slot).
use super::*;
use crate::hll::aux_map::verif_kani_hll_aux_map as va;
use crate::hll::estimator::verif_kani_hll_estimator as ve;
use crate::hll::estimator::verif_kani_hll_estimator::rec_update;

/// arbitrary valid Array4 state at lg_k = 4 with at most 2 exceptions
pub(crate) fn any_array4() -> (Array4, [u8; 16]) {
    let bytes: [u8; 8] = kani::any();
    let cur_min: u8 = kani::any();
    kani::assume(cur_min <= 40);
    let aux_entries: [u32; 4] = kani::any();
    let aux = va::raw_aux(4, &aux_entries);
    kani::assume(va::aux_invariant(&aux));
    kani::assume(va::count(&aux) <= 2);
    let has_aux = va::count(&aux) > 0;
    let mut a = Array4 {
        lg_config_k: 4,
        bytes: bytes.to_vec().into_boxed_slice(),
        cur_min,
        num_at_cur_min: 0,
        aux_map: if has_aux { Some(aux) } else { kani::any::<bool>().then(|| va::raw_aux(4, &[0; 4])) },
        estimator: ve::raw_estimator(0.0, 16.0, 0.0, false),
    };
    // representation invariant: nibble 15 <=> slot has an exception with value >= cur_min + 15
    let mut model = [0u8; 16];
    let mut at_min = 0u32;
    let mut n_tokens = 0u32;
    let mut s = 0u32;
    while s < 16 {
        let raw = a.get_raw(s);
        if raw == AUX_TOKEN {
            n_tokens += 1;
            let v = match &a.aux_map {
                Some(m) => va::model_get(m, s),
                None => None,
            };
            kani::assume(v.is_some());
            let v = v.unwrap();
            kani::assume(v >= cur_min + 15 && v <= 63);
            model[s as usize] = v;
        } else {
            model[s as usize] = cur_min + raw;
            if raw == 0 {
                at_min += 1;
            }
        }
        s += 1;
    }
    let aux_count = match &a.aux_map {
        Some(m) => va::count(m),
        None => 0,
    };
    kani::assume(n_tokens == aux_count);
    a.num_at_cur_min = at_min;
    (a, model)
}

/// valid Array4 state at lg_k = 4 whose exceptions sit at the given (concrete) slots: nibble bytes,
/// cur_min and the exception values are symbolic; the aux map is filled by the real AuxMap::insert in
/// the given order (concrete probe positions). Shape concrete, contents symbolic.
pub(crate) fn array4_with_exceptions(exc: &[u32]) -> (Array4, [u8; 16]) {
    let bytes: [u8; 8] = kani::any();
    let cur_min: u8 = kani::any();
    kani::assume(cur_min <= 40);
    let mut aux = crate::hll::aux_map::AuxMap::new(4);
    let mut model = [0u8; 16];
    let mut i = 0;
    while i < exc.len() {
        let v: u8 = kani::any();
        kani::assume(v >= cur_min + 15 && v <= 63);
        aux.insert(exc[i], v);
        model[exc[i] as usize] = v;
        i += 1;
    }
    let keep_empty_map: bool = kani::any();
    let mut a = Array4 {
        lg_config_k: 4,
        bytes: bytes.to_vec().into_boxed_slice(),
        cur_min,
        num_at_cur_min: 0,
        aux_map: if exc.len() > 0 || keep_empty_map { Some(aux) } else { None },
        estimator: ve::raw_estimator(0.0, 16.0, 0.0, false),
    };
    let mut at_min = 0u32;
    // (unrolled: the image harnesses run with an unwinding bound below 16)
    macro_rules! slot {
        ($($s:expr),*) => { $( {
            let raw = a.get_raw($s);
            let is_exc = (exc.len() > 0 && exc[0] == $s) || (exc.len() > 1 && exc[1] == $s);
            // representation invariant: nibble 15 <=> the slot has an exception entry
            kani::assume((raw == AUX_TOKEN) == is_exc);
            if !is_exc {
                model[$s as usize] = cur_min + raw;
                if raw == 0 {
                    at_min += 1;
                }
            }
        } )* };
    }
    slot!(0, 1, 2, 3, 4, 5, 6, 7, 8, 9, 10, 11, 12, 13, 14, 15);
    a.num_at_cur_min = at_min;
    (a, model)
}

const E0: [u32; 0] = [];
const E1: [u32; 1] = [3];
const E2: [u32; 2] = [3, 12];
/// two exceptions with the same home slot in the 4-entry aux table (7 & 3 == 3): the second one probes on
const E2C: [u32; 2] = [3, 7];

fn check_view(a: &Array4, model: &[u8; 16]) {
    let mut at_min = 0;
    let mut s = 0u32;
    while s < 16 {
        assert!(a.get(s) == model[s as usize], "register view differs from the per-slot maximum model");
        if model[s as usize] == a.cur_min {
            at_min += 1;
        }
        s += 1;
    }
    assert!(a.num_at_cur_min == at_min, "num_at_cur_min does not count the registers at cur_min");
}

fn cut_shift(_a: &mut Array4) {
    panic!("verif cut: shift_to_bigger_cur_min reached although >= 2 registers sit at cur_min");
}
fn cut_grow(_m: &mut crate::hll::aux_map::AuxMap) {
    panic!("verif cut: AuxMap::grow reached with <= 3 exceptions");
}

fn array4_update_case(start: (Array4, [u8; 16]), exceptions: usize) {
    let (mut a, mut model) = start;
    kani::assume(a.num_at_cur_min >= 2);
    let slot26: u32 = kani::any();
    kani::assume(slot26 < (1 << 26));
    let value: u8 = kani::any();
    kani::assume(value >= 1 && value <= 63);
    let s = (slot26 & 15) as usize;
    let old = model[s];
    ve::rec_reset();
    a.update(crate::hll::pack_coupon(slot26, value));
    if value > old {
        model[s] = value;
        assert!(ve::rec_count() == 1 && ve::rec_get(0) == (4, old, value), "estimator not updated with (old, new)");
    } else {
        assert!(ve::rec_count() == 0, "estimator updated although no register grew");
    }
    check_view(&a, &model);
    kani::cover!(value > old && value >= a.cur_min + 15 && old < a.cur_min + 15); // new exception
    kani::cover!(exceptions == 0 || (value > old && old >= a.cur_min + 15)); // exception replaced
    kani::cover!(value > old && value < a.cur_min + 15); // plain nibble
    core::mem::forget(a);
}

macro_rules! array4_update {
    ($name:ident, $start:expr, $n:expr) => {
        #[kani::proof]
        #[kani::unwind(18)]
        #[kani::stub(crate::hll::estimator::HipEstimator::update, rec_update)]
        #[kani::stub(Array4::shift_to_bigger_cur_min, cut_shift)]
        #[kani::stub(crate::hll::aux_map::AuxMap::grow, cut_grow)]
        fn $name() {
            array4_update_case($start, $n);
        }
    };
}

//@ family: array4_update
//@ props: C02 C17
//@ tier: thorough
//@ timeout: 3600
//@ functions: hll::array4::Array4::update
//@ functions: hll::array4::Array4::get
//@ functions: hll::array4::Array4::get_raw
//@ functions: hll::array4::Array4::put_raw
//@ functions: hll::aux_map::AuxMap::insert
//@ functions: hll::aux_map::AuxMap::replace
//@ unwind: 18
//@ stubs: HipEstimator::update -> recorder; shift_to_bigger_cur_min -> must-not-reach cut; AuxMap::grow -> must-not-reach cut
//@ bounds: lg_k = 4: all 8 nibble bytes symbolic, cur_min 0..=40, exception slots concrete per instance (none; slot 3; slots 3 and 12; slots 3 and 7 colliding in the aux table) with symbolic values - the *_any_layout instance quantifies over every valid aux table layout with <= 2 exceptions; every coupon (26-bit slot, value 1..=63); at least 2 registers at cur_min (so no cur_min shift - c02_array4_shift_*)
//@ assumes: Array4 representation invariant: nibble 15 <=> exception entry with value >= cur_min+15; num_at_cur_min = number of registers equal to cur_min
//@ replay_stub: hll/estimator.rs | pub fn update(&mut self, lg_config_k: u8, old_value: u8, new_value: u8) { | return self::verif_kani_hll_estimator::rec_update(self, lg_config_k, old_value, new_value);
//@ desc: one Array4::update (all four cases: plain nibble, new exception, exception replaced, ignored): get(slot) = max(old, value), all other registers unchanged, num_at_cur_min tracked, estimator told (old, new) exactly when a register grows
array4_update!(c02_array4_update_e0, array4_with_exceptions(&E0), 0); //@ tier: quick
array4_update!(c02_array4_update_e1, array4_with_exceptions(&E1), 1); //@ tier: quick
array4_update!(c02_array4_update_e2, array4_with_exceptions(&E2), 2);
array4_update!(c02_array4_update_e2_colliding, array4_with_exceptions(&E2C), 2); //@ tier: quick
array4_update!(c02_array4_update_any_layout, any_array4(), 2);
//@ endfamily: x

fn array4_shift_case(start: (Array4, [u8; 16]), exceptions: u32) {
    let (mut a, model) = start;
    kani::assume(a.num_at_cur_min == 0);
    let c0 = a.cur_min;
    let had_aux = a.aux_map.as_ref().map(|m| va::count(m)).unwrap_or(0);
    a.shift_to_bigger_cur_min();
    assert!(a.cur_min == c0 + 1);
    check_view(&a, &model);
    // an exception survives exactly when its value still needs more than a nibble
    let mut need = 0;
    let mut s = 0;
    while s < 16 {
        if model[s] >= a.cur_min + 15 {
            need += 1;
            assert!(a.get_raw(s as u32) == AUX_TOKEN);
        } else {
            assert!(a.get_raw(s as u32) == model[s] - a.cur_min);
        }
        s += 1;
    }
    let have = a.aux_map.as_ref().map(|m| va::count(m)).unwrap_or(0);
    assert!(have == need, "exception table does not hold exactly the registers that need it");
    // (covers are written as single expressions: a cover in a branch that is dead for an instance counts as
    // unsatisfied)
    kani::cover!(exceptions != 2 || (had_aux == 2 && have == 1));
    kani::cover!(exceptions != 2 || (had_aux == 2 && have == 2));
    kani::cover!(exceptions != 2 || (had_aux == 2 && have == 0));
    kani::cover!(exceptions != 1 || (had_aux == 1 && have == 1));
    kani::cover!(exceptions != 1 || (had_aux == 1 && have == 0));
    kani::cover!(have == 0);
    core::mem::forget(a);
}

macro_rules! array4_shift {
    ($name:ident, $start:expr, $n:expr) => {
        #[kani::proof]
        #[kani::unwind(18)]
        #[kani::stub(crate::hll::aux_map::AuxMap::grow, cut_grow)]
        fn $name() {
            array4_shift_case($start, $n);
        }
    };
}

//@ family: array4_shift
//@ props: C02 C17
//@ tier: thorough
//@ timeout: 3600
//@ functions: hll::array4::Array4::shift_to_bigger_cur_min
//@ functions: hll::aux_map::AuxMap::into_iter
//@ functions: hll::aux_map::AuxMap::insert
//@ unwind: 18
//@ stubs: AuxMap::grow -> must-not-reach cut
//@ bounds: lg_k = 4, any valid state with no register at cur_min (the only state in which a shift happens), cur_min 0..=40, exception slots concrete per instance (none; 3; 3 and 12; 3 and 7 colliding in the aux table) with symbolic values; the *_any_layout instance quantifies over every valid aux layout with <= 2 exceptions
//@ assumes: Array4 representation invariant
//@ desc: shift_to_bigger_cur_min leaves every register value unchanged while cur_min grows by one: nibbles are decremented, exceptions that now fit move back into the nibbles, the others stay exceptions (an exception of exactly new cur_min + 15 stays one), num_at_cur_min is recounted; no internal assertion fires when exceptions are present
array4_shift!(c02_array4_shift_e0, array4_with_exceptions(&E0), 0);
array4_shift!(c02_array4_shift_e1, array4_with_exceptions(&E1), 1); //@ tier: quick
array4_shift!(c02_array4_shift_e2, array4_with_exceptions(&E2), 2);
array4_shift!(c02_array4_shift_e2_colliding, array4_with_exceptions(&E2C), 2);
array4_shift!(c02_array4_shift_any_layout, any_array4(), 3);
//@ endfamily: x

// ---------------------------------------------------------------------------------------------
// Hll4 images: round trip + layout (C11/C12/C18) and the updatable aux-table variant (C13)
// ---------------------------------------------------------------------------------------------
use crate::verif_kani_common::stub_format;

fn rd_u32(b: &[u8], o: usize) -> u32 {
    (b[o] as u32) | ((b[o + 1] as u32) << 8) | ((b[o + 2] as u32) << 16) | ((b[o + 3] as u32) << 24)
}

fn same_registers(a: &Array4, model: &[u8; 16]) {
    let mut s = 0u32;
    while s < 16 {
        assert!(a.get(s) == model[s as usize], "deserialized Hll4 register differs from the encoded one");
        s += 1;
    }
}

/// loop-free little-endian store
fn put_le(b: &mut [u8], o: usize, v: u64, n: usize) {
    b[o] = v as u8;
    if n >= 2 {
        b[o + 1] = (v >> 8) as u8;
    }
    if n >= 4 {
        b[o + 2] = (v >> 16) as u8;
        b[o + 3] = (v >> 24) as u8;
    }
    if n >= 8 {
        b[o + 4] = (v >> 32) as u8;
        b[o + 5] = (v >> 40) as u8;
        b[o + 6] = (v >> 48) as u8;
        b[o + 7] = (v >> 56) as u8;
    }
}
fn rd_u64(b: &[u8], o: usize) -> u64 {
    (rd_u32(b, o) as u64) | ((rd_u32(b, o + 4) as u64) << 32)
}

/// Round trip against a SPEC ENCODER (Hll4 image of datasketches-java/cpp, compact aux form) in a 56-byte
/// array with literal structure: Array4::serialize must equal it byte for byte and Array4::deserialize is
/// run on the spec image (the dispatcher is c11_hll_deserialize_dispatch). N_AUX = 9 marks the any-layout
/// instance, which decodes the real bytes through HllSketch::deserialize instead.
fn array4_image_case(start: (Array4, [u8; 16]), n_exc: usize, via_sketch: bool, decode: bool) {
    let (mut a, model) = start;
    if n_exc == 0 && !decode {
        // (without exceptions the layout instance runs without an aux map object: iterating even an empty aux
        // table in serialize() costs 12 GB - the e1 / e2 layout instances are thorough-tier for that reason)
        a.aux_map = None;
    }
    let n_aux = a.aux_map.as_ref().map(|m| va::count(m)).unwrap_or(0) as usize;
    assert!(n_aux == n_exc || n_exc == 9);
    if via_sketch {
        let bytes = a.serialize(4);
        assert!(bytes.len() == 40 + 8 + 4 * n_aux, "Hll4 image is not 40 + k/2 + 4*aux bytes");
        assert!(bytes[0] == 10 && bytes[1] == 1 && bytes[2] == 7 && bytes[3] == 4, "preInts / serVer / family / lgK");
        assert!(bytes[5] & 8 != 0, "COMPACT flag: the aux map is written as a pair list");
        assert!(bytes[6] == a.cur_min && bytes[7] == 2, "curMin / mode byte");
        assert!(rd_u32(&bytes, 32) == a.num_at_cur_min && rd_u32(&bytes, 36) as usize == n_aux, "numAtCurMin / auxCount");
        let g = crate::verif_kani_common::expect_ok(crate::hll::sketch::HllSketch::deserialize(&bytes), "own Hll4 image rejected");
        match g.mode() {
            crate::hll::mode::Mode::Array4(b) => {
                same_registers(b, &model);
                assert!(b.cur_min == a.cur_min && b.num_at_cur_min == a.num_at_cur_min, "cur_min / num_at_cur_min changed");
            }
            _ => panic!("Hll4 image decoded to another mode"),
        }
        core::mem::forget((a, g, bytes));
        return;
    }
    let mut img = [0u8; 56];
    img[0] = 10; // preInts
    img[1] = 1; // serVer
    img[2] = 7; // family
    img[3] = 4; // lgK
    img[4] = 0; // lgArr: unused in the compact form
    img[5] = 8; // flags: COMPACT (the aux map is written as a pair list); in order
    img[6] = a.cur_min;
    img[7] = 2; // mode byte: HLL mode | Hll4 << 2
    put_le(&mut img, 8, a.estimator.hip_accum().to_bits(), 8);
    put_le(&mut img, 16, a.estimator.kxq0().to_bits(), 8);
    put_le(&mut img, 24, a.estimator.kxq1().to_bits(), 8);
    put_le(&mut img, 32, a.num_at_cur_min as u64, 4);
    put_le(&mut img, 36, n_exc as u64, 4); // auxCount
    put_le(&mut img, 40, u64::from_le_bytes([a.bytes[0], a.bytes[1], a.bytes[2], a.bytes[3], a.bytes[4], a.bytes[5], a.bytes[6], a.bytes[7]]), 8); // nibbles
    // aux pairs (slot | value << 26) in the order of the aux table's occupied entries
    if let Some(m) = &a.aux_map {
        let mut w = 0;
        let mut i = 0;
        while i < 4 {
            let e = va::entry(m, i);
            if e != 0 {
                put_le(&mut img, 48 + 4 * w, e as u64, 4);
                let slot = (e & 0x3ff_ffff) as usize;
                assert!(slot < 16 && (e >> 26) as u8 == model[slot] && a.get_raw(slot as u32) == AUX_TOKEN, "aux pair is not (slot, value) of an exception register");
                w += 1;
            }
            i += 1;
        }
        assert!(w == n_exc);
    }
    let total = 48 + 4 * n_exc;
    if !decode {
        // C12 / C18: the real encoder writes exactly the spec image
        let bytes = a.serialize(4);
        assert!(bytes.len() == total, "Hll4 image is not 40 + k/2 + 4*aux bytes");
        macro_rules! same_word {
            ($($i:expr),*) => { $( if 8 * $i + 8 <= total {
                assert!(rd_u64(&bytes, 8 * $i) == rd_u64(&img, 8 * $i), "serialized bytes differ from the documented layout");
            } else if 8 * $i + 4 <= total {
                assert!(rd_u32(&bytes, 8 * $i) == rd_u32(&img, 8 * $i), "serialized bytes differ from the documented layout");
            } )* };
        }
        same_word!(0, 1, 2, 3, 4, 5, 6);
        core::mem::forget((a, bytes));
        return;
    }
    macro_rules! same_word_unused {
        ($($i:expr),*) => { $( if 8 * $i + 8 <= total {
            assert!(rd_u64(&bytes, 8 * $i) == rd_u64(&img, 8 * $i), "serialized bytes differ from the documented layout");
        } else if 8 * $i + 4 <= total {
            assert!(rd_u32(&bytes, 8 * $i) == rd_u32(&img, 8 * $i), "serialized bytes differ from the documented layout");
        } )* };
    }
    // C11: decoding the spec image (= the real image, by the *_image_layout_* instances) restores the state
    let cursor = crate::codec::SketchSlice::new(&img[8..total]);
    let b = crate::verif_kani_common::expect_ok(Array4::deserialize(cursor, img[6], 4, 0, true, false), "own Hll4 image rejected");
    same_registers(&b, &model);
    assert!(b.cur_min == a.cur_min && b.num_at_cur_min == a.num_at_cur_min, "cur_min / num_at_cur_min changed");
    assert!(b.aux_map.as_ref().map(|m| va::count(m)).unwrap_or(0) as usize == n_aux, "exception count changed");
    core::mem::forget((a, b));
}

macro_rules! array4_image {
    ($name:ident, $start:expr, $n:expr, $via:expr, $decode:expr, $unwind:expr) => {
        #[kani::proof]
        #[kani::unwind($unwind)]
        #[kani::stub(alloc::fmt::format, stub_format)]
        #[kani::stub(crate::hll::aux_map::AuxMap::grow, cut_grow)]
        fn $name() {
            array4_image_case($start, $n, $via, $decode);
            kani::cover!(true);
        }
    };
}

//@ family: array4_image
//@ props: C11 C12 C18
//@ tier: thorough
//@ timeout: 3600
//@ functions: hll::array4::Array4::serialize
//@ functions: hll::array4::Array4::deserialize
//@ functions: hll::aux_map::AuxMap::iter
//@ unwind: 18
//@ stubs: alloc::fmt::format -> empty string; AuxMap::grow -> must-not-reach cut
//@ bounds: lg_k = 4: Hll4 state with all 8 nibble bytes symbolic, cur_min 0..=40, exception slots concrete per instance (none; 3; 3 and 12; 3 and 7 colliding) with symbolic values. *_image_layout_*: Array4::serialize against the spec image (unwinding bound 7: iterating the aux table with a larger bound does not finish); *_roundtrip_*: Array4::deserialize of the spec image (bound 18); *_any_layout_via_sketch: every valid aux layout with <= 2 exceptions through HllSketch::{serialize, deserialize}
//@ assumes: Array4 representation invariant
//@ desc: the Hll4 image is 40 + k/2 + 4*aux bytes: preInts 10, serVer 1, family 7, lgK, lgArr 0, COMPACT flag set (the aux map is written as a pair list), curMin @6, mode byte HLL|Hll4, estimator f64s @8, numAtCurMin @32, auxCount @36, nibbles @40, then (slot | value << 26) pairs in aux-table order - serialize() equals that spec image byte for byte; deserializing it restores every register, cur_min, num_at_cur_min and the exception count
array4_image!(c11_hll_array4_image_layout_e0, array4_with_exceptions(&E0), 0, false, false, 7); //@ tier: quick
array4_image!(c11_hll_array4_image_layout_e1, array4_with_exceptions(&E1), 1, false, false, 7);
array4_image!(c11_hll_array4_image_layout_e2, array4_with_exceptions(&E2), 2, false, false, 7);
array4_image!(c11_hll_array4_image_layout_e2_colliding, array4_with_exceptions(&E2C), 2, false, false, 7);
array4_image!(c11_hll_array4_roundtrip_e0, array4_with_exceptions(&E0), 0, false, true, 18); //@ tier: quick
array4_image!(c11_hll_array4_roundtrip_e1, array4_with_exceptions(&E1), 1, false, true, 18); //@ tier: quick
array4_image!(c11_hll_array4_roundtrip_e2, array4_with_exceptions(&E2), 2, false, true, 18); //@ tier: quick
array4_image!(c11_hll_array4_roundtrip_e2_colliding, array4_with_exceptions(&E2C), 2, false, true, 18);
array4_image!(c11_hll_array4_roundtrip_any_layout_via_sketch, any_array4(), 9, true, true, 20);
//@ endfamily: x

/// the same state in the updatable form other implementations write: COMPACT flag clear, aux map as a hash
/// table of 2^lgArr ints with empty slots, lgArr in byte 4
fn array4_updatable_case(exc: &[u32]) {
    let (a, model) = array4_with_exceptions(exc);
    let n_aux = exc.len();
    let mut upd = [0u8; 64];
    upd[0] = 10;
    upd[1] = 1;
    upd[2] = 7;
    upd[3] = 4;
    upd[4] = 2; // lgAuxArrInts: a table of 4 ints
    upd[5] = 0; // not compact
    upd[6] = a.cur_min;
    upd[7] = 2;
    put_le(&mut upd, 8, a.estimator.hip_accum().to_bits(), 8);
    put_le(&mut upd, 16, a.estimator.kxq0().to_bits(), 8);
    put_le(&mut upd, 24, a.estimator.kxq1().to_bits(), 8);
    put_le(&mut upd, 32, a.num_at_cur_min as u64, 4);
    put_le(&mut upd, 36, n_aux as u64, 4);
    let mut i = 0;
    while i < 8 {
        upd[40 + i] = a.bytes[i];
        i += 1;
    }
    // the pairs at concrete, distinct positions of the 4-int table (the first at the position given by the
    // instance's first exception slot, the second right after it, wrapping), the rest empty
    let p0 = (exc[0] as usize) & 3;
    let p1 = (p0 + 1) & 3;
    put_le(&mut upd, 48 + 4 * p0, crate::hll::pack_coupon(exc[0], model[exc[0] as usize]) as u64, 4);
    if n_aux == 2 {
        put_le(&mut upd, 48 + 4 * p1, crate::hll::pack_coupon(exc[1], model[exc[1] as usize]) as u64, 4);
    }
    let cursor = crate::codec::SketchSlice::new(&upd[8..64]);
    let b = crate::verif_kani_common::expect_ok(Array4::deserialize(cursor, upd[6], 4, 2, false, false), "valid updatable Hll4 image rejected");
    same_registers(&b, &model);
    assert!(b.cur_min == a.cur_min && b.num_at_cur_min == a.num_at_cur_min);
    kani::cover!(true);
    core::mem::forget((a, b));
}

macro_rules! array4_updatable {
    ($name:ident, $exc:expr) => {
        #[kani::proof]
        #[kani::unwind(20)]
        #[kani::stub(alloc::fmt::format, stub_format)]
        #[kani::stub(crate::hll::aux_map::AuxMap::grow, cut_grow)]
        fn $name() {
            array4_updatable_case($exc);
        }
    };
}

//@ family: array4_updatable
//@ props: C13
//@ tier: thorough
//@ timeout: 3600
//@ functions: hll::array4::Array4::deserialize
//@ functions: hll::aux_map::AuxMap::insert
//@ unwind: 20
//@ stubs: alloc::fmt::format -> empty string; AuxMap::grow -> must-not-reach cut
//@ bounds: lg_k = 4 Hll4 state (symbolic nibbles, cur_min, exception values; exception slots concrete per instance) re-encoded in the updatable form: COMPACT flag clear, lgAuxArrInts = 2 in byte 4, the aux pairs at distinct positions of a 4-int table (concrete per instance), the rest empty
//@ desc: an updatable Hll4 image as written by other implementations (aux map as an open-addressing table with empty slots) decodes to the same registers, cur_min and num_at_cur_min as the compact image of the same state
array4_updatable!(c13_hll_array4_updatable_aux_e1, &E1); //@ tier: quick
array4_updatable!(c13_hll_array4_updatable_aux_e2, &E2);
//@ endfamily: x
