//@@ attach: hash/xxhash.rs
// XXH64: streaming write() step, finish64() against the reference, one-shot equality (UF multiplication).
use super::*;
use crate::verif_kani_common::{uf_mul, uf_reset};

fn rd64(b: &[u8], off: usize) -> u64 {
    let mut v = 0u64;
    let mut i = 0;
    while i < 8 {
        v |= (b[off + i] as u64) << (8 * i);
        i += 1;
    }
    v
}

fn ref_round(acc: u64, input: u64) -> u64 {
    acc.wrapping_add(input.wrapping_mul(0xC2B2AE3D27D4EB4F)).rotate_left(31).wrapping_mul(0x9E3779B185EBCA87)
}

fn write_case<const B: usize, const N: usize>() {
    uf_reset();
    let seed: u64 = kani::any();
    let total_len: u64 = kani::any();
    kani::assume(total_len < (1u64 << 60));
    let v: [u64; 4] = kani::any();
    let pre: [u8; 32] = kani::any();
    let chunk: [u8; N] = kani::any();
    let mut st = XxHash64 { seed, total_len, v1: v[0], v2: v[1], v3: v[2], v4: v[3], buffer: pre, buffer_len: B };
    st.write(&chunk);
    let mut cat = [0u8; 128];
    let mut i = 0;
    while i < B {
        cat[i] = pre[i];
        i += 1;
    }
    let mut i = 0;
    while i < N {
        cat[B + i] = chunk[i];
        i += 1;
    }
    let len = B + N;
    let stripes = len / 32;
    let mut r = v;
    let mut s = 0;
    while s < stripes {
        let mut l = 0;
        while l < 4 {
            r[l] = ref_round(r[l], rd64(&cat, 32 * s + 8 * l));
            l += 1;
        }
        s += 1;
    }
    let rem = len % 32;
    assert!(st.v1 == r[0] && st.v2 == r[1] && st.v3 == r[2] && st.v4 == r[3], "lane state differs from the reference rounds");
    assert!(st.total_len == total_len + N as u64, "total length wrong");
    assert!(st.buffer_len == rem, "buffered length wrong");
    assert!(st.seed == seed);
    let mut i = 0;
    while i < rem {
        assert!(st.buffer[i] == cat[32 * stripes + i], "buffered tail bytes wrong");
        i += 1;
    }
}

macro_rules! xx_write_step {
    ($name:ident, $b:expr, [$($n:expr),*]) => {
        #[kani::proof]
        #[kani::unwind(130)]
        #[kani::stub(u64::wrapping_mul, uf_mul)]
        fn $name() {
            $( write_case::<$b, $n>(); )*
            kani::cover!(true);
        }
    };
}

//@ family: xx_write_step
//@ props: C16
//@ tier: thorough
//@ timeout: 1800
//@ functions: hash::XxHash64::write
//@ functions: hash::XxHash64::update
//@ functions: hash::round
//@ stubs: u64::wrapping_mul -> uf_mul (uninterpreted function)
//@ unwind: 130
//@ bounds: any hasher state (seed, total_len < 2^60, four lanes, buffer bytes symbolic) with concrete buffered length b, chunk of concrete length n with symbolic content; the (b, n) pairs of the instance
//@ desc: write(chunk) leaves exactly the state the XXH64 specification gives: full 32-byte stripes of buffer++chunk through the four-lane round, the rest buffered, total_len += n
xx_write_step!(c16_xxh_write_b0, 0, [0, 1, 31, 32, 33, 64, 65]); //@ tier: quick
xx_write_step!(c16_xxh_write_b1, 1, [0, 30, 31, 32, 63]); //@ tier: quick
xx_write_step!(c16_xxh_write_b8, 8, [8, 23, 24, 25, 56]);
xx_write_step!(c16_xxh_write_b16, 16, [15, 16, 17, 48]);
xx_write_step!(c16_xxh_write_b31, 31, [0, 1, 2, 33, 34]); //@ tier: quick
xx_write_step!(c16_xxh_write_b4, 4, [4, 27, 28, 29]);
xx_write_step!(c16_xxh_write_b24, 24, [7, 8, 9, 40]);
//@ endfamily: x

/// reference tail + avalanche for a state (XXH64 specification steps 4-6)
fn ref_finish(seed: u64, total_len: u64, v: [u64; 4], tail: &[u8], rem: usize) -> u64 {
    const P1: u64 = 0x9E3779B185EBCA87;
    const P2: u64 = 0xC2B2AE3D27D4EB4F;
    const P3: u64 = 0x165667B19E3779F9;
    const P4: u64 = 0x85EBCA77C2B2AE63;
    const P5: u64 = 0x27D4EB2F165667C5;
    let mut h: u64;
    if total_len >= 32 {
        h = v[0].rotate_left(1).wrapping_add(v[1].rotate_left(7)).wrapping_add(v[2].rotate_left(12)).wrapping_add(v[3].rotate_left(18));
        let mut l = 0;
        while l < 4 {
            h = (h ^ ref_round(0, v[l])).wrapping_mul(P1).wrapping_add(P4);
            l += 1;
        }
    } else {
        h = seed.wrapping_add(P5);
    }
    h = h.wrapping_add(total_len);
    let mut off = 0;
    while off + 8 <= rem {
        h ^= ref_round(0, rd64(tail, off));
        h = h.rotate_left(27).wrapping_mul(P1).wrapping_add(P4);
        off += 8;
    }
    if off + 4 <= rem {
        let w = (tail[off] as u64) | ((tail[off + 1] as u64) << 8) | ((tail[off + 2] as u64) << 16) | ((tail[off + 3] as u64) << 24);
        h ^= w.wrapping_mul(P1);
        h = h.rotate_left(23).wrapping_mul(P2).wrapping_add(P3);
        off += 4;
    }
    while off < rem {
        h ^= (tail[off] as u64).wrapping_mul(P5);
        h = h.rotate_left(11).wrapping_mul(P1);
        off += 1;
    }
    h ^= h >> 33;
    h = h.wrapping_mul(P2);
    h ^= h >> 29;
    h = h.wrapping_mul(P3);
    h ^= h >> 32;
    h
}

fn finish_case<const B: usize>(long: bool) {
    uf_reset();
    let seed: u64 = kani::any();
    let total_len: u64 = kani::any();
    if long {
        kani::assume(total_len >= 32 && total_len < (1u64 << 60));
    } else {
        kani::assume(total_len < 32);
    }
    let v: [u64; 4] = kani::any();
    let pre: [u8; 32] = kani::any();
    let st = XxHash64 { seed, total_len, v1: v[0], v2: v[1], v3: v[2], v4: v[3], buffer: pre, buffer_len: B };
    let got = st.finish64();
    let want = ref_finish(seed, total_len, v, &pre, B);
    assert!(got == want, "finish64 differs from the reference tail + avalanche");
}

macro_rules! xx_finish {
    ($name:ident, $long:expr, [$($b:expr),*]) => {
        #[kani::proof]
        #[kani::unwind(72)]
        #[kani::stub(u64::wrapping_mul, uf_mul)]
        fn $name() {
            $( finish_case::<$b>($long); )*
            kani::cover!(true);
        }
    };
}

//@ family: xx_finish
//@ props: C16
//@ tier: thorough
//@ timeout: 1800
//@ functions: hash::XxHash64::finish64
//@ functions: hash::merge_round
//@ functions: hash::finalize
//@ stubs: u64::wrapping_mul -> uf_mul
//@ unwind: 72
//@ bounds: any hasher state; buffered lengths of the instance; both the short (< 32 bytes in total) and the long (>= 32) branch
//@ desc: finish64 of any state equals the XXH64 specification: lane convergence + merge rounds (long) or seed + P5 (short), + length, 8/4/1-byte tail steps, avalanche
xx_finish!(c16_xxh_finish_short_len0, false, [0]); //@ tier: quick
xx_finish!(c16_xxh_finish_short_len1, false, [1]); //@ tier: quick
xx_finish!(c16_xxh_finish_short_len4, false, [4]); //@ tier: quick
xx_finish!(c16_xxh_finish_short_len8, false, [8]); //@ tier: quick
xx_finish!(c16_xxh_finish_long_len0, true, [0]); //@ tier: quick
xx_finish!(c16_xxh_finish_long_len5, true, [5]); //@ tier: quick
xx_finish!(c16_xxh_finish_short_a, false, [0, 1, 3]);
xx_finish!(c16_xxh_finish_short_b, false, [4, 7, 8]);
xx_finish!(c16_xxh_finish_short_c, false, [9, 12, 31]);
xx_finish!(c16_xxh_finish_long_a, true, [0, 1, 4]);
xx_finish!(c16_xxh_finish_long_b, true, [7, 8, 15]);
xx_finish!(c16_xxh_finish_long_c, true, [24, 31]);
xx_finish!(c16_xxh_finish_short_d, false, [2, 5, 6]);
xx_finish!(c16_xxh_finish_short_e, false, [10, 11, 13]);
xx_finish!(c16_xxh_finish_short_f, false, [14, 15, 16]);
xx_finish!(c16_xxh_finish_short_g, false, [17, 18, 19]);
xx_finish!(c16_xxh_finish_short_h, false, [20, 21, 22]);
xx_finish!(c16_xxh_finish_short_i, false, [23, 24, 25]);
xx_finish!(c16_xxh_finish_short_j, false, [26, 27, 28]);
xx_finish!(c16_xxh_finish_short_k, false, [29, 30]);
xx_finish!(c16_xxh_finish_long_d, true, [2, 3, 5]);
xx_finish!(c16_xxh_finish_long_e, true, [6, 9, 10]);
xx_finish!(c16_xxh_finish_long_f, true, [11, 12, 13]);
xx_finish!(c16_xxh_finish_long_g, true, [14, 16, 17]);
xx_finish!(c16_xxh_finish_long_h, true, [18, 19, 20]);
xx_finish!(c16_xxh_finish_long_i, true, [21, 22, 23]);
xx_finish!(c16_xxh_finish_long_j, true, [25, 26, 27]);
xx_finish!(c16_xxh_finish_long_k, true, [28, 29, 30]);
//@ endfamily: x

fn oneshot_case<const N: usize>() {
    uf_reset();
    let seed: u64 = kani::any();
    let data: [u8; N] = kani::any();
    let mut h = XxHash64::with_seed(seed);
    h.write(&data);
    let got = h.finish64();
    let want = crate::verif_kani_common::refhash::xxh64(&data, N, seed);
    assert!(got == want, "one-shot XXH64 differs from the reference algorithm");
}

//@ props: C16 C09
//@ tier: quick
//@ timeout: 1800
//@ functions: hash::XxHash64::with_seed
//@ functions: hash::XxHash64::write
//@ functions: hash::XxHash64::finish64
//@ functions: hash::XxHash64::hash_u64
//@ stubs: u64::wrapping_mul -> uf_mul
//@ bounds: one-shot inputs of length 0, 1, 4, 8, 31, 32, 33 with symbolic content and seed; hash_u64 for every (value, seed)
//@ desc: with_seed + write + finish64 equals the reference XXH64 of the whole byte string; hash_u64(x, seed) equals the streaming hash of x's 8 little-endian bytes
#[kani::proof]
#[kani::unwind(72)]
#[kani::stub(u64::wrapping_mul, uf_mul)]
fn c16_xxh_oneshot_reference() {
    oneshot_case::<0>();
    oneshot_case::<1>();
    oneshot_case::<4>();
    oneshot_case::<8>();
    oneshot_case::<31>();
    oneshot_case::<32>();
    oneshot_case::<33>();
    uf_reset();
    let x: u64 = kani::any();
    let seed: u64 = kani::any();
    let want = crate::verif_kani_common::refhash::xxh64(&x.to_le_bytes(), 8, seed);
    assert!(XxHash64::hash_u64(x, seed) == want, "hash_u64 differs from XXH64 of the 8 LE bytes");
    kani::cover!(true);
}
