//@@ attach: cpc/mod.rs
// Kernel-vs-specification harnesses for the flavor / window-offset arithmetic of CPC.
// The specification is written in 64-bit arithmetic from the definition in the CPC paper and the
// Java/C++ sources (comments in cpc/mod.rs: Sparse 1 <= C < 3K/32, Hybrid < K/2, Pinned < 27K/8).
use super::*;

fn spec_flavor(lg_k: u8, c: u64) -> Flavor {
    let k: u64 = 1u64 << lg_k;
    if c == 0 {
        Flavor::Empty
    } else if 32 * c < 3 * k {
        Flavor::Sparse
    } else if 2 * c < k {
        Flavor::Hybrid
    } else if 8 * c < 27 * k {
        Flavor::Pinned
    } else {
        Flavor::Sliding
    }
}

fn spec_offset(lg_k: u8, c: u64) -> u64 {
    let k: i128 = 1i128 << lg_k;
    let tmp: i128 = 8 * (c as i128) - 19 * k;
    if tmp < 0 { 0 } else { (tmp / (8 * k)) as u64 }
}

//@ props: C05 C17
//@ tier: quick
//@ timeout: 120
//@ functions: cpc::determine_flavor
//@ bounds: every lg_k in 4..=26, every num_coupons in 0..=min(u32::MAX, 64*2^lg_k) (a k x 64 matrix cannot hold more)
//@ desc: determine_flavor(lg_k, C) equals the 64-bit specification of the flavor thresholds for every admissible (lg_k, C); no overflow panic
#[kani::proof]
fn c05_determine_flavor_spec() {
    let lg_k: u8 = kani::any();
    kani::assume(lg_k >= MIN_LG_K && lg_k <= MAX_LG_K);
    let c: u32 = kani::any();
    kani::assume((c as u64) <= 64u64 << lg_k);
    let got = determine_flavor(lg_k, c);
    let want = spec_flavor(lg_k, c as u64);
    assert!(got == want, "flavor differs from 64-bit specification");
    kani::cover!(got == Flavor::Empty);
    kani::cover!(got == Flavor::Sparse);
    kani::cover!(got == Flavor::Hybrid);
    kani::cover!(got == Flavor::Pinned);
    kani::cover!(got == Flavor::Sliding && lg_k == 26);
}

//@ props: C05 C17
//@ tier: quick
//@ timeout: 120
//@ functions: cpc::determine_correct_offset
//@ bounds: every lg_k in 4..=26, every num_coupons in 0..=min(u32::MAX, 64*2^lg_k)
//@ desc: determine_correct_offset equals floor((8C-19K)/(8K)) clamped at 0, is <= 56 (window fits in 64 columns) and is consistent with the flavor (offset 0 unless Sliding)
#[kani::proof]
fn c05_determine_correct_offset_spec() {
    let lg_k: u8 = kani::any();
    kani::assume(lg_k >= MIN_LG_K && lg_k <= MAX_LG_K);
    let c: u32 = kani::any();
    kani::assume((c as u64) <= 64u64 << lg_k);
    let got = determine_correct_offset(lg_k, c);
    let want = spec_offset(lg_k, c as u64);
    assert!(got as u64 == want, "offset differs from specification");
    // 8C - 19K <= 512K - 19K  =>  offset <= 61; the sketch itself keeps C < 27K/8 + K*offset, i.e. offset >= (8C-27K)/8K
    assert!(got <= 61);
    if spec_flavor(lg_k, c as u64) != Flavor::Sliding {
        assert!(got == 0);
    }
    kani::cover!(got == 0);
    kani::cover!(got == 56);
    kani::cover!(got == 1 && lg_k == 26);
}

//@ props: C05
//@ tier: quick
//@ timeout: 60
//@ functions: cpc::count_bits_set_in_matrix
//@ bounds: matrices of 0..=4 rows, every row content
//@ desc: count_bits_set_in_matrix is the sum of per-row population counts
#[kani::proof]
#[kani::unwind(6)]
fn c05_count_bits_spec() {
    let m: [u64; 4] = kani::any();
    let n: usize = kani::any();
    kani::assume(n <= 4);
    let got = count_bits_set_in_matrix(&m[..n]);
    let mut want: u32 = 0;
    let mut i = 0;
    while i < n {
        let mut w = m[i];
        let mut b = 0;
        while b < 1 {
            // popcount by SWAR, independent of count_ones
            w = w - ((w >> 1) & 0x5555555555555555);
            w = (w & 0x3333333333333333) + ((w >> 2) & 0x3333333333333333);
            w = (w + (w >> 4)) & 0x0f0f0f0f0f0f0f0f;
            want += ((w.wrapping_mul(0x0101010101010101)) >> 56) as u32;
            b += 1;
        }
        i += 1;
    }
    assert!(got == want);
    kani::cover!(n == 4 && got == 256);
}
