//@@ attach: hll/list.rs
use super::*;

//@ props: C02 C17 C18
//@ tier: quick
//@ timeout: 600
//@ functions: hll::list::List::update
//@ functions: hll::container::Container::is_full
//@ bounds: list of 8 slots holding any prefix (0..=7) of distinct non-zero coupons, every offered coupon (non-zero)
//@ assumes: list invariant: coupons occupy a prefix, are distinct and non-zero, len = prefix length
//@ desc: List::update keeps set semantics: a new coupon is appended (len+1), a present one changes nothing, the order of existing coupons is kept; the list reports full exactly at 8 coupons (promotion trigger)
#[kani::proof]
#[kani::unwind(10)]
fn c02_list_update_step() {
    let c: [u32; 8] = kani::any();
    let n: usize = kani::any();
    kani::assume(n <= 7);
    let mut l = List::default();
    let mut i = 0;
    while i < 8 {
        if i < n {
            kani::assume(c[i] != 0);
            let mut j = 0;
            while j < i {
                kani::assume(c[j] != c[i]);
                j += 1;
            }
            l.container.coupons[i] = c[i];
        }
        i += 1;
    }
    l.container.len = n;
    assert!(l.container.capacity() == 8 && l.container.lg_size() == 3);
    let x: u32 = kani::any();
    kani::assume(x != 0);
    let mut present = false;
    let mut i = 0;
    while i < n {
        if c[i] == x {
            present = true;
        }
        i += 1;
    }
    l.update(x);
    assert!(l.container.len() == n + if present { 0 } else { 1 }, "list length is not the distinct-coupon count");
    let mut i = 0;
    while i < n {
        assert!(l.container.coupons[i] == c[i], "existing coupon disturbed");
        i += 1;
    }
    if !present {
        assert!(l.container.coupons[n] == x, "new coupon not stored");
    }
    let mut i = l.container.len();
    while i < 8 {
        assert!(l.container.coupons[i] == 0);
        i += 1;
    }
    assert!(l.container.is_full() == (l.container.len() == 8));
    kani::cover!(!present && n == 7);
    kani::cover!(present && n == 5);
    core::mem::forget(l);
}
