//@@ attach: countmin/sketch.rs
// Count-Min: table model, one-sided guarantee, merge / halve / decay, serialization.
// The hash is the REAL MurmurHash; what is symbolic is the per-row hash seed (an arbitrary u64), the
// table contents, weights and item. Counterexamples therefore replay natively without any stub.
use super::*;
use crate::verif_kani_common::stub_format;

const ROWS: usize = 2;
const B: u32 = 3;

fn mk<T: CountMinValue>(seeds: [u64; ROWS], counts: [T; 6], total: T) -> CountMinSketch<T> {
    CountMinSketch {
        num_hashes: ROWS as u8,
        num_buckets: B,
        seed: DEFAULT_UPDATE_SEED,
        seed_hash: 0, // only read by serialize()
        total_weight: total,
        counts: counts.to_vec(),
        hash_seeds: seeds.to_vec(),
    }
}

/// documented bucket of `item` in the row whose hash seed is `seed`: h1(MurmurHash3(item; seed)) mod B
fn spec_bucket(item: u64, seed: u64) -> usize {
    // the hasher itself is tied to the reference algorithm by C16; what is specified here is *which*
    // digest half, which seed and which modulus select the bucket
    let mut hasher = MurmurHash3X64128::with_seed(seed);
    item.hash(&mut hasher);
    let (h1, _) = hasher.finish128();
    (h1 % (B as u64)) as usize
}

macro_rules! update_step {
    ($name:ident, $t:ty, $x:expr, $y:expr) => {
        #[kani::proof]
        #[kani::unwind(9)]
        fn $name() {
            let seeds: [u64; ROWS] = [0x1234_5678_9abc_def0, 77];
            let counts: [$t; 6] = kani::any();
            let total: $t = kani::any();
            let x: u64 = $x;
            let y: u64 = $y;
            let w: $t = kani::any();
            // representation invariant for non-negative histories: 0 <= cell <= total_weight
            let mut i = 0;
            while i < 6 {
                kani::assume(counts[i] >= 0 as $t && counts[i] <= total);
                i += 1;
            }
            // "non-negative weights whose total fits the counter type"
            kani::assume(w >= 0 as $t);
            kani::assume(total.checked_add(w).is_some());
            // ghost true counts of x and of another item y, below each of their cells (the invariant)
            let tx: $t = kani::any();
            let ty: $t = kani::any();
            kani::assume(tx >= 0 as $t && ty >= 0 as $t);
            let bx = [spec_bucket(x, seeds[0]), spec_bucket(x, seeds[1])];
            let by = [spec_bucket(y, seeds[0]), spec_bucket(y, seeds[1])];
            kani::assume(x != y);
            kani::assume(tx <= counts[bx[0]] && tx <= counts[3 + bx[1]]);
            kani::assume(ty <= counts[by[0]] && ty <= counts[3 + by[1]]);
            // if both share a cell the cell holds both
            if bx[0] == by[0] {
                kani::assume((tx as u128) + (ty as u128) <= counts[bx[0]] as u128);
            }
            if bx[1] == by[1] {
                kani::assume((tx as u128) + (ty as u128) <= counts[3 + bx[1]] as u128);
            }

            let mut s = mk::<$t>(seeds, counts, total);
            s.update_with_weight(x, w);

            // table == model table
            let mut i = 0;
            while i < 6 {
                let row = i / 3;
                let hit = i % 3 == bx[row];
                let want = if hit { counts[i] + w } else { counts[i] };
                assert!(s.counts[i] == want, "table differs from model");
                i += 1;
            }
            assert!(s.total_weight == total + w, "total_weight is not the exact sum");
            assert!(s.counts.len() == 6 && s.hash_seeds.len() == 2);
            // one-sided guarantee and upper limit, for the updated item and for a bystander
            let ex = s.estimate(x);
            let ey = s.estimate(y);
            let m0 = s.counts[bx[0]];
            let m1 = s.counts[3 + bx[1]];
            assert!(ex == if m0 < m1 { m0 } else { m1 }, "estimate is not the row minimum");
            assert!(ex >= tx + w, "estimate under-counts the updated item");
            assert!(ey >= ty, "estimate under-counts a bystander item");
            assert!(ex <= s.total_weight && ey <= s.total_weight, "estimate exceeds total weight");
            assert!(s.lower_bound(x) == ex);
            kani::cover!(w > 0 as $t && tx > 0 as $t && ty > 0 as $t);
            core::mem::forget(s);
        }
    };
}

//@ family: update_step
//@ props: C08 C17
//@ tier: thorough
//@ timeout: 300
//@ functions: countmin::CountMinSketch::update_with_weight
//@ functions: countmin::CountMinSketch::estimate
//@ functions: countmin::CountMinSketch::bucket_index
//@ functions: countmin::CountMinSketch::lower_bound
//@ unwind: 9
//@ bounds: 2 rows x 3 buckets; all 6 cells, total, weight and the ghost true counts symbolic over the whole counter type (0 <= cell <= total, total + w does not overflow); row hash seeds and the item pair (x, y) are concrete (real MurmurHash constant-folded; symbolic hash inputs do not decide: > 400 s) - pairs chosen so that x and y share one cell / both cells / no cell
//@ assumes: Count-Min state invariant for non-negative histories: 0 <= cell <= total_weight (established by new(), preserved by this step)
//@ desc: one update_with_weight step from an arbitrary valid table: table' = table + w at row*B + (h1 mod B) and nowhere else, total exact, estimate = row minimum >= ghost true count of the item and of a bystander, <= total
update_step!(c08_update_step_u8, u8, 5, 11); //@ tier: quick
update_step!(c08_update_step_i8, i8, 5, 11);
update_step!(c08_update_step_u16, u16, 5, 11);
update_step!(c08_update_step_i16, i16, 5, 11);
update_step!(c08_update_step_u32, u32, 5, 11);
update_step!(c08_update_step_i32, i32, 5, 11);
update_step!(c08_update_step_u64, u64, 5, 6); //@ tier: quick
update_step!(c08_update_step_i64, i64, 5, 7); //@ tier: quick
update_step!(c08_update_step_u32_same, u32, 5, 6);
update_step!(c08_update_step_u32_disj, u32, 29, 7);
//@ endfamily: x

macro_rules! merge_step {
    ($name:ident, $t:ty) => {
        #[kani::proof]
        #[kani::unwind(9)]
        fn $name() {
            let seeds: [u64; ROWS] = [1, 2];
            let a: [$t; 6] = kani::any();
            let b: [$t; 6] = kani::any();
            let ta: $t = kani::any();
            let tb: $t = kani::any();
            let mut i = 0;
            while i < 6 {
                kani::assume(a[i] >= 0 as $t && a[i] <= ta);
                kani::assume(b[i] >= 0 as $t && b[i] <= tb);
                i += 1;
            }
            kani::assume(ta.checked_add(tb).is_some());
            let mut s = mk::<$t>(seeds, a, ta);
            let o = mk::<$t>(seeds, b, tb);
            s.merge(&o);
            let mut i = 0;
            while i < 6 {
                assert!(s.counts[i] == a[i] + b[i], "merge is not element-wise addition");
                assert!(o.counts[i] == b[i]);
                // one-sided guarantee is kept: cell >= ghost_a + ghost_b whenever each operand's cell >= its ghost
                assert!(s.counts[i] <= s.total_weight);
                i += 1;
            }
            assert!(s.total_weight == ta + tb, "merged total is not the sum");
            assert!(s.num_hashes == 2 && s.num_buckets == 3 && s.counts.len() == 6);
            kani::cover!(ta > 0 as $t && tb > 0 as $t);
            core::mem::forget(s);
            core::mem::forget(o);
        }
    };
}

//@ family: merge_step
//@ props: C08 C17
//@ tier: thorough
//@ timeout: 300
//@ functions: countmin::CountMinSketch::merge
//@ unwind: 9
//@ bounds: two 2x3 sketches with every cell and total symbolic (0 <= cell <= total, totals do not overflow when added)
//@ desc: merge adds tables and totals element-wise, leaves the argument unchanged and keeps cell <= total
merge_step!(c08_merge_u8, u8); //@ tier: quick
merge_step!(c08_merge_i16, i16);
merge_step!(c08_merge_u32, u32);
merge_step!(c08_merge_i64, i64); //@ tier: quick
//@ endfamily: x

macro_rules! halve_step {
    ($name:ident, $t:ty) => {
        #[kani::proof]
        #[kani::unwind(9)]
        fn $name() {
            let a: [$t; 6] = kani::any();
            let ta: $t = kani::any();
            let ghost: [$t; 6] = kani::any();
            let mut i = 0;
            while i < 6 {
                kani::assume(a[i] <= ta && ghost[i] <= a[i]);
                i += 1;
            }
            let mut s = mk::<$t>([1, 2], a, ta);
            s.halve();
            let mut i = 0;
            while i < 6 {
                assert!(s.counts[i] == a[i] / 2, "halve is not floor(c/2)");
                assert!(s.counts[i] >= ghost[i] / 2, "halve breaks the one-sided guarantee");
                i += 1;
            }
            assert!(s.total_weight == ta / 2);
            kani::cover!(ta > 1);
            core::mem::forget(s);
        }
    };
}

//@ family: halve_step
//@ props: C08 C17
//@ tier: thorough
//@ timeout: 300
//@ functions: countmin::CountMinSketch::halve
//@ unwind: 9
//@ bounds: 2x3 table, all cells / total / ghost true weights symbolic
//@ desc: halve maps every cell and the total to floor(v/2); a cell that dominated its ghost true weight still dominates the halved ghost
halve_step!(c08_halve_u8, u8); //@ tier: quick
halve_step!(c08_halve_u16, u16);
halve_step!(c08_halve_u32, u32);
halve_step!(c08_halve_u64, u64); //@ tier: quick
//@ endfamily: x

macro_rules! decay_step {
    ($name:ident, $t:ty, $d:expr) => {
        #[kani::proof]
        #[kani::unwind(4)]
        fn $name() {
            // a 1x3 table keeps the number of symbolic float multiplications small
            let a: [$t; 3] = kani::any();
            let ta: $t = kani::any();
            let g: $t = kani::any();
            kani::assume(a[0] <= ta && a[1] <= ta && a[2] <= ta && g <= a[0]);
            // symbolic decay factors do not decide (4 symbolic 53x53-bit float multiplications: > 600 s)
            let d: f64 = $d;
            let mut s = CountMinSketch::<$t> {
                num_hashes: 1,
                num_buckets: 3,
                seed: DEFAULT_UPDATE_SEED,
                seed_hash: 0,
                total_weight: ta,
                counts: a.to_vec(),
                hash_seeds: [1u64].to_vec(),
            };
            s.decay(d);
            // correspondingly scaled truth, computed the same way the counters are scaled
            let scaled_truth = ((g as f64) * d) as $t;
            assert!(s.counts[0] >= scaled_truth, "decay breaks the one-sided guarantee");
            // (counters above 2^53 are rounded by `as f64`, so "never increases" is only claimed below that)
            if (a[0] as u64) < (1u64 << 53) {
                assert!(s.counts[0] <= a[0], "decay increased a cell");
            }
            assert!(s.counts[0] <= s.total_weight, "decay broke cell <= total");
            kani::cover!(d >= 1.0 || (a[0] > 3 && s.counts[0] < a[0]));
            core::mem::forget(s);
        }
    };
}

//@ family: decay_step
//@ props: C08 C17
//@ tier: thorough
//@ timeout: 200
//@ functions: countmin::CountMinSketch::decay
//@ unwind: 4
//@ bounds: 1x3 table, cells / total / one ghost weight symbolic; decay factor concrete per instance (0.5, 0.9, 1.0, 0.001) - symbolic factors time out
//@ desc: decay never increases a cell, is monotone (cell >= ghost implies decayed cell >= decayed ghost) and keeps cell <= total
decay_step!(c08_decay_u8_half, u8, 0.5); //@ tier: quick
decay_step!(c08_decay_u8_p9, u8, 0.9);
decay_step!(c08_decay_u16_p9, u16, 0.9);
decay_step!(c08_decay_u32_milli, u32, 0.001);
decay_step!(c08_decay_u64_one, u64, 1.0);
//@ endfamily: x

//@ props: C08 C16
//@ tier: quick
//@ timeout: 300
//@ functions: countmin::make_hash_seeds
//@ bounds: seeds 9001, 0, u64::MAX; num_hashes = 3; everything concrete (constant-folded by symex), reference = /verif's own MurmurHash3 transcription
//@ desc: row seed i is h1 of MurmurHash3_x64_128(LE bytes of i as u64; seed = sketch seed) per the reference algorithm
#[kani::proof]
#[kani::unwind(10)]
fn c08_make_hash_seeds_ref() {
    let seeds = [9001u64, 0, u64::MAX];
    let mut k = 0;
    while k < 3 {
        let v = make_hash_seeds(seeds[k], 3);
        assert!(v.len() == 3);
        let mut i = 0u64;
        while i < 3 {
            let (h1, _) = crate::verif_kani_common::refhash::murmur3_x64_128(&i.to_le_bytes(), 8, seeds[k]);
            assert!(v[i as usize] == h1, "row seed differs from reference derivation");
            i += 1;
        }
        k += 1;
    }
    kani::cover!(true);
}

//@ props: C08 C17 C18
//@ tier: quick
//@ timeout: 300
//@ functions: countmin::entries_for_config_checked
//@ functions: countmin::CountMinSketch::suggest_num_hashes
//@ bounds: every (num_hashes: u8, num_buckets: u32)
//@ desc: entries_for_config_checked accepts exactly num_hashes >= 1, num_buckets >= 3, product < 2^30 and returns the product; never panics
#[kani::proof]
#[kani::stub(alloc::fmt::format, stub_format)]
fn c08_entries_for_config() {
    let h: u8 = kani::any();
    let b: u32 = kani::any();
    let r = entries_for_config_checked(h, b);
    let prod = (h as u64) * (b as u64);
    let ok = h >= 1 && b >= 3 && prod < (1u64 << 30);
    match &r {
        Ok(n) => assert!(ok && *n as u64 == prod),
        Err(_) => assert!(!ok),
    }
    kani::cover!(r.is_ok());
    kani::cover!(r.is_err());
    core::mem::forget(r);
}

// ---------------------------------------------------------------------------------------------
// serialization: C11 round trip, C12 layout, C13 empty-flag variant, C14 arbitrary bytes, C18 size
// ---------------------------------------------------------------------------------------------

fn rd_u16(b: &[u8], o: usize) -> u16 {
    (b[o] as u16) | ((b[o + 1] as u16) << 8)
}
fn rd_u32(b: &[u8], o: usize) -> u32 {
    (rd_u16(b, o) as u32) | ((rd_u16(b, o + 2) as u32) << 16)
}
fn rd_u64(b: &[u8], o: usize) -> u64 {
    (rd_u32(b, o) as u64) | ((rd_u32(b, o + 4) as u64) << 32)
}

/// loop-free little-endian store
fn put_le(b: &mut [u8], o: usize, v: u64, n: usize) {
    b[o] = v as u8;
    if n >= 2 {
        b[o + 1] = (v >> 8) as u8;
    }
    if n >= 4 {
        b[o + 2] = (v >> 16) as u8;
        b[o + 3] = (v >> 24) as u8;
    }
    if n >= 8 {
        b[o + 4] = (v >> 32) as u8;
        b[o + 5] = (v >> 40) as u8;
        b[o + 6] = (v >> 48) as u8;
        b[o + 7] = (v >> 56) as u8;
    }
}

/// Round trip against a SPEC ENCODER (Java/C++ CountMin layout) in an exact-size array with literal
/// structure: serialize() must equal it byte for byte (C12, C18) and the decoder runs on the spec image (C11).
macro_rules! roundtrip {
    ($name:ident, $t:ty, $wide:ty, $empty:expr, $len:expr) => {
        #[kani::proof]
        #[kani::unwind(10)]
        #[kani::stub(alloc::fmt::format, stub_format)]
        fn $name() {
            let counts: [$t; 3] = kani::any();
            let total: $t = if $empty { 0 as $t } else { kani::any() };
            kani::assume($empty == (total == 0 as $t));
            let mut s = CountMinSketch::<$t>::new(1, 3);
            s.counts[0] = counts[0];
            s.counts[1] = counts[1];
            s.counts[2] = counts[2];
            s.total_weight = total;
            let mut img = [0u8; $len];
            img[0] = 2; // preamble longs
            img[1] = 1; // serial version
            img[2] = 18; // family id
            img[3] = if $empty { 1 } else { 0 }; // flags: empty bit 0
            put_le(&mut img, 4, 0, 4); // unused
            put_le(&mut img, 8, 3, 4); // num_buckets
            img[12] = 1; // num_hashes
            put_le(&mut img, 13, 0x93CC, 2); // seed hash of the default seed
            img[15] = 0;
            if !$empty {
                // total weight and counters as 8 bytes each, sign-extended for signed types
                put_le(&mut img, 16, (total as $wide) as u64, 8);
                put_le(&mut img, 24, (counts[0] as $wide) as u64, 8);
                put_le(&mut img, 32, (counts[1] as $wide) as u64, 8);
                put_le(&mut img, 40, (counts[2] as $wide) as u64, 8);
            }
            let bytes = s.serialize();
            assert!(bytes.len() == $len, "image length is not 16 (+ 8 + 8 * cells)");
            let mut w = 0;
            while w < $len / 8 {
                assert!(rd_u64(&bytes, 8 * w) == rd_u64(&img, 8 * w), "serialized bytes differ from the documented layout");
                w += 1;
            }
            // ---- round trip (C11)
            let r = CountMinSketch::<$t>::deserialize(&img);
            let g = crate::verif_kani_common::expect_ok(r, "own image rejected");
            assert!(g.num_hashes == 1 && g.num_buckets == 3 && g.seed == s.seed && g.seed_hash == s.seed_hash);
            assert!(g.hash_seeds.len() == 1 && g.hash_seeds[0] == s.hash_seeds[0]);
            assert!(g.total_weight == total);
            if !$empty {
                assert!(g.counts[0] == counts[0] && g.counts[1] == counts[1] && g.counts[2] == counts[2], "counters changed in round trip");
            }
            kani::cover!(true);
            core::mem::forget((s, g, bytes));
        }
    };
}

//@ family: roundtrip
//@ props: C11 C12 C18
//@ tier: thorough
//@ timeout: 900
//@ functions: countmin::CountMinSketch::serialize
//@ functions: countmin::CountMinSketch::deserialize
//@ functions: countmin::CountMinSketch::deserialize_with_seed
//@ unwind: 10
//@ stubs: alloc::fmt::format -> empty string
//@ bounds: 1 x 3 sketch, every counter value of the counter type; total weight 0 (the empty form: serialize's emptiness rule is total == 0) or any non-zero total, per instance
//@ desc: serialize() follows the CountMin layout (preLongs 2, serVer 1, family 18, empty flag bit 0, num_buckets u32 @8, num_hashes u8 @12, seed hash u16 @13, then total and counters as 8-byte LE) - serialize() equals, byte for byte, the image a spec encoder written from that layout produces (16 bytes when empty, else 16 + 8 + 8 * cells); deserializing it restores every field
roundtrip!(c11_countmin_roundtrip_u8, u8, u64, false, 48); //@ tier: quick
roundtrip!(c11_countmin_roundtrip_u8_empty, u8, u64, true, 16); //@ tier: quick
roundtrip!(c11_countmin_roundtrip_i8, i8, i64, false, 48); //@ tier: quick
roundtrip!(c11_countmin_roundtrip_u16, u16, u64, false, 48);
roundtrip!(c11_countmin_roundtrip_i16, i16, i64, false, 48);
roundtrip!(c11_countmin_roundtrip_u32, u32, u64, false, 48);
roundtrip!(c11_countmin_roundtrip_i32, i32, i64, false, 48);
roundtrip!(c11_countmin_roundtrip_u64, u64, u64, false, 48);
roundtrip!(c11_countmin_roundtrip_i64, i64, i64, false, 48); //@ tier: quick
roundtrip!(c11_countmin_roundtrip_i64_empty, i64, i64, true, 16);
//@ endfamily: x

macro_rules! any_bytes {
    ($name:ident, $t:ty, $fixed_config:expr) => {
        #[kani::proof]
        #[kani::unwind(12)]
        #[kani::stub(alloc::fmt::format, stub_format)]
        fn $name() {
            let mut img: [u8; 48] = kani::any();
            // (fixed-configuration instances read the full 48 bytes and then a few concrete truncations: a
            // slice of symbolic length defeats constant propagation over the literal configuration fields)
            let len: usize = if $fixed_config { 48 } else { kani::any() };
            kani::assume(len <= 48);
            if !$fixed_config {
                // (the hash-seed derivation loops num_hashes times: keep it within the unwinding bound)
                kani::assume(img[12] <= 8);
            }
            if $fixed_config {
                // configuration fields as literals (1 hash function, 3 buckets): the table allocation and the
                // hash-seed derivation are then concrete; every other byte and the length stay symbolic. The
                // configuration arithmetic for every (hashes, buckets) pair is c08_entries_for_config.
                img[8] = 3;
                img[9] = 0;
                img[10] = 0;
                img[11] = 0;
                img[12] = 1;
            }
            let r = CountMinSketch::<$t>::deserialize(&img[..len]);
            kani::cover!(r.is_ok());
            kani::cover!(r.is_err());
            if $fixed_config {
                let r2 = CountMinSketch::<$t>::deserialize(&img[..47]);
                assert!(r2.is_err() || img[3] & 1 != 0, "a truncated non-empty image was accepted");
                core::mem::forget(r2);
                let r3 = CountMinSketch::<$t>::deserialize(&img[..15]);
                assert!(r3.is_err(), "an image shorter than the preamble was accepted");
                core::mem::forget(r3);
            }
            if let Ok(g) = r {
                assert!(g.num_hashes >= 1 && g.num_buckets >= 3);
                assert!(g.counts.len() == g.num_hashes as usize * g.num_buckets as usize);
                assert!(g.hash_seeds.len() == g.num_hashes as usize);
                if $fixed_config {
                    let _ = g.is_empty();
                    kani::cover!(!g.is_empty());
                }
                core::mem::forget(g);
            } else {
                core::mem::forget(r);
            }
        }
    };
}

//@ family: any_bytes
//@ props: C14
//@ tier: thorough
//@ timeout: 1800
//@ functions: countmin::CountMinSketch::deserialize
//@ functions: countmin::CountMinValue::try_from_bytes
//@ unwind: 12
//@ stubs: alloc::fmt::format -> empty string
//@ bounds: every byte string of length 0..=48; in the *_config_1x3 instances the configuration fields (num_buckets @8, num_hashes @12) are the literals 3 and 1 and every other byte (preamble, version, family, flags, seed hash, total weight, counters) is symbolic; the *_any_config instances leave the configuration symbolic too, with at most 8 hash functions (configuration-sized allocation: outside the allocation claim)
//@ desc: deserialize returns Ok or Err without panic for every byte string (signed counter types: negative values are rejected, not wrapped); an Ok value is structurally consistent
any_bytes!(c14_countmin_any_bytes_u8_config_1x3, u8, true); //@ tier: quick
any_bytes!(c14_countmin_any_bytes_i64_config_1x3, i64, true); //@ tier: quick
any_bytes!(c14_countmin_any_bytes_u8_any_config, u8, false);
any_bytes!(c14_countmin_any_bytes_i64_any_config, i64, false);
//@ endfamily: x
