//@@ attach: hll/hash_set.rs
use super::*;

fn spec_probe(coupon: u32, lg: usize, step: u32) -> usize {
    let mask = (1u32 << lg) - 1;
    let stride = ((coupon & 0x3ff_ffff) >> lg) | 1;
    ((coupon & mask).wrapping_add(step.wrapping_mul(stride)) & mask) as usize
}

macro_rules! set_update_step {
    ($name:ident, $lg:expr, $size:expr) => {
        #[kani::proof]
        #[kani::unwind(20)]
        fn $name() {
            let t: [u32; $size] = kani::any();
            let mut s = HashSet::new($lg);
            let mut n = 0usize;
            let mut i = 0;
            while i < $size {
                s.container.coupons[i] = t[i];
                if t[i] != 0 {
                    n += 1;
                    // distinct
                    let mut j = 0;
                    while j < i {
                        kani::assume(t[j] != t[i]);
                        j += 1;
                    }
                }
                i += 1;
            }
            s.container.len = n;
            // load below the promotion threshold before the step: 4*len <= 3*capacity
            kani::assume(4 * n <= 3 * $size);
            let x: u32 = kani::any();
            kani::assume(x != 0);
            // local probing invariant for x: if stored at step j, no earlier slot of its path is empty
            let mut seen_empty = false;
            let mut present = false;
            let mut st = 0u32;
            while st < $size {
                let p = t[spec_probe(x, $lg, st)];
                if p == x {
                    kani::assume(!seen_empty);
                    present = true;
                }
                if p == 0 {
                    seen_empty = true;
                }
                st += 1;
            }
            s.update(x);
            assert!(s.container.len() == n + if present { 0 } else { 1 }, "set length is not the distinct-coupon count");
            let mut changed = 0;
            let mut found = false;
            let mut i = 0;
            while i < $size {
                if s.container.coupons[i] != t[i] {
                    changed += 1;
                    assert!(t[i] == 0 && s.container.coupons[i] == x, "a slot other than an empty one was overwritten");
                }
                if s.container.coupons[i] == x {
                    found = true;
                }
                i += 1;
            }
            assert!(found, "offered coupon not in the set");
            assert!(changed == if present { 0 } else { 1 });
            kani::cover!(present);
            kani::cover!(!present && 4 * (n + 1) > 3 * $size);
            core::mem::forget(s);
        }
    };
}

//@ family: set_update_step
//@ props: C02 C17 C18
//@ tier: thorough
//@ timeout: 900
//@ functions: hll::hash_set::HashSet::update
//@ unwind: 20
//@ bounds: table size fixed per instance (8 or 16 slots; production starts at 32 - same code, parametric in lg_size), every table content with distinct coupons and load <= 3/4, every offered non-zero coupon
//@ assumes: local probing invariant for the offered coupon (if present, reachable along its odd-stride probe path before any empty slot); other keys are unaffected because insertion only fills an empty slot (argued)
//@ desc: HashSet::update has set semantics: an absent coupon fills exactly one empty slot (len+1), a present one changes nothing; no other slot changes
set_update_step!(c02_set_update_step_8, 3, 8); //@ tier: quick
set_update_step!(c02_set_update_step_16, 4, 16);
//@ endfamily: x
