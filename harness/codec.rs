//@@ attach: codec/mod.rs
// SketchBytes / SketchSlice: every width and endianness writes what the reader reads back, in the
// documented byte order; short buffers yield errors.
use super::*;

//@ props: C11 C12 C14
//@ tier: quick
//@ timeout: 600
//@ functions: codec::SketchBytes::write_u16_le
//@ functions: codec::SketchBytes::write_u16_be
//@ functions: codec::SketchBytes::write_u32_le
//@ functions: codec::SketchBytes::write_u32_be
//@ functions: codec::SketchBytes::write_u64_le
//@ functions: codec::SketchBytes::write_u64_be
//@ functions: codec::SketchBytes::write_f64_le
//@ functions: codec::SketchBytes::write_f64_be
//@ functions: codec::SketchBytes::write_f32_le
//@ functions: codec::SketchBytes::write_f32_be
//@ functions: codec::SketchBytes::write_i8
//@ functions: codec::SketchBytes::write_i16_le
//@ functions: codec::SketchBytes::write_i32_le
//@ functions: codec::SketchBytes::write_i64_le
//@ functions: codec::SketchSlice::read_u16_le
//@ functions: codec::SketchSlice::read_u16_be
//@ functions: codec::SketchSlice::read_u32_le
//@ functions: codec::SketchSlice::read_u32_be
//@ functions: codec::SketchSlice::read_u64_le
//@ functions: codec::SketchSlice::read_u64_be
//@ functions: codec::SketchSlice::read_f64_le
//@ functions: codec::SketchSlice::read_f64_be
//@ functions: codec::SketchSlice::read_f32_le
//@ functions: codec::SketchSlice::read_f32_be
//@ functions: codec::SketchSlice::read_i8
//@ functions: codec::SketchSlice::read_i16_le
//@ functions: codec::SketchSlice::read_i32_le
//@ functions: codec::SketchSlice::read_i64_le
//@ functions: codec::SketchSlice::read_i16_be
//@ functions: codec::SketchSlice::read_i32_be
//@ functions: codec::SketchSlice::read_i64_be
//@ functions: codec::SketchSlice::advance
//@ functions: codec::SketchSlice::read_exact
//@ bounds: one symbolic value of every width; all writer / reader pairs
//@ desc: each write_* emits the value's bytes in the named byte order (checked against shifts) and the matching read_* returns the same bits; reading past the end returns an error, not a panic
#[kani::proof]
#[kani::unwind(12)]
fn c12_codec_widths_and_endianness() {
    let a: u16 = kani::any();
    let b: u32 = kani::any();
    let c: u64 = kani::any();
    let f: f64 = kani::any();
    let g: f32 = kani::any();
    let mut w = SketchBytes::with_capacity(64);
    w.write_u16_le(a);
    w.write_u16_be(a);
    w.write_u32_le(b);
    w.write_u32_be(b);
    w.write_u64_le(c);
    w.write_u64_be(c);
    w.write_f64_le(f);
    w.write_f64_be(f);
    w.write_f32_le(g);
    w.write_f32_be(g);
    w.write_i8(a as i8);
    w.write_i16_le(a as i16);
    w.write_i16_be(a as i16);
    w.write_i32_le(b as i32);
    w.write_i32_be(b as i32);
    w.write_i64_le(c as i64);
    w.write_i64_be(c as i64);
    let bytes = w.into_bytes();
    assert!(bytes.len() == 2 + 2 + 4 + 4 + 8 + 8 + 8 + 8 + 4 + 4 + 1 + 2 + 2 + 4 + 4 + 8 + 8);
    assert!(bytes[0] == a as u8 && bytes[1] == (a >> 8) as u8, "u16 LE byte order");
    assert!(bytes[2] == (a >> 8) as u8 && bytes[3] == a as u8, "u16 BE byte order");
    assert!(bytes[4] == b as u8 && bytes[7] == (b >> 24) as u8, "u32 LE byte order");
    assert!(bytes[8] == (b >> 24) as u8 && bytes[11] == b as u8, "u32 BE byte order");
    assert!(bytes[12] == c as u8 && bytes[19] == (c >> 56) as u8, "u64 LE byte order");
    assert!(bytes[20] == (c >> 56) as u8 && bytes[27] == c as u8, "u64 BE byte order");
    assert!(bytes[28] == f.to_bits() as u8 && bytes[36] == (f.to_bits() >> 56) as u8, "f64 LE/BE byte order");
    let mut r = SketchSlice::new(&bytes);
    assert!(r.read_u16_le().ok() == Some(a) && r.read_u16_be().ok() == Some(a));
    assert!(r.read_u32_le().ok() == Some(b) && r.read_u32_be().ok() == Some(b));
    assert!(r.read_u64_le().ok() == Some(c) && r.read_u64_be().ok() == Some(c));
    assert!(r.read_f64_le().ok().map(f64::to_bits) == Some(f.to_bits()) && r.read_f64_be().ok().map(f64::to_bits) == Some(f.to_bits()));
    assert!(r.read_f32_le().ok().map(f32::to_bits) == Some(g.to_bits()) && r.read_f32_be().ok().map(f32::to_bits) == Some(g.to_bits()));
    assert!(r.read_i8().ok() == Some(a as i8));
    assert!(r.read_i16_le().ok() == Some(a as i16) && r.read_i16_be().ok() == Some(a as i16));
    assert!(r.read_i32_le().ok() == Some(b as i32) && r.read_i32_be().ok() == Some(b as i32));
    assert!(r.read_i64_le().ok() == Some(c as i64));
    // 8 bytes left: a 4-byte skip, then an 8-byte read must fail cleanly
    r.advance(4);
    let short = r.read_u64_le();
    assert!(short.is_err(), "read past the end did not fail");
    core::mem::forget(short);
    kani::cover!(true);
    core::mem::forget(bytes);
}
