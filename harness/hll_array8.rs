//@@ attach: hll/array8.rs
//@@ needs: hll_estimator.rs
// Array8 at lg_k = 4: register model (per-slot maximum), num_zeros bookkeeping, merges with and without
// down-sampling, rebuild_cached_values. HipEstimator::update is replaced by a recorder (no floats).
use super::*;

pub(crate) fn num_zeros_of(a: &Array8) -> u32 {
    a.num_zeros
}
pub(crate) fn estimator_of(a: &Array8) -> &HipEstimator {
    &a.estimator
}
use crate::hll::estimator::verif_kani_hll_estimator as ve;
use crate::hll::estimator::verif_kani_hll_estimator::rec_update;
use crate::hll::pack_coupon;

pub(crate) fn raw_array8(lg_k: u8, regs: &[u8], est: HipEstimator) -> Array8 {
    let mut z = 0u32;
    let mut i = 0;
    while i < regs.len() {
        if regs[i] == 0 {
            z += 1;
        }
        i += 1;
    }
    Array8 { lg_config_k: lg_k, bytes: regs.to_vec().into_boxed_slice(), num_zeros: z, estimator: est }
}

//@ props: C02 C17
//@ tier: quick
//@ timeout: 600
//@ functions: hll::array8::Array8::update
//@ functions: hll::array8::Array8::get
//@ bounds: lg_k = 4 (16 registers) with every register content 0..=63, every coupon (slot bits above lg_k arbitrary, value 1..=63)
//@ assumes: num_zeros = number of zero registers (re-established by the step)
//@ replay_stub: hll/estimator.rs | pub fn update(&mut self, lg_config_k: u8, old_value: u8, new_value: u8) { | return self::verif_kani_hll_estimator::rec_update(self, lg_config_k, old_value, new_value);
//@ desc: one Array8::update from an arbitrary register state: register[slot & 15] = max(old, value), every other register unchanged, num_zeros tracks the zero count, the estimator is told (old, new) exactly when a register grows
#[kani::proof]
#[kani::unwind(18)]
#[kani::stub(crate::hll::estimator::HipEstimator::update, rec_update)]
fn c02_array8_update_step() {
    let regs: [u8; 16] = kani::any();
    let mut i = 0;
    while i < 16 {
        kani::assume(regs[i] <= 63);
        i += 1;
    }
    let mut a = raw_array8(4, &regs, ve::raw_estimator(0.0, 16.0, 0.0, false));
    let z0 = a.num_zeros;
    let slot26: u32 = kani::any();
    kani::assume(slot26 < (1 << 26));
    let value: u8 = kani::any();
    kani::assume(value >= 1 && value <= 63);
    ve::rec_reset();
    a.update(pack_coupon(slot26, value));
    let s = (slot26 & 15) as usize;
    let mut zeros = 0;
    let mut i = 0;
    while i < 16 {
        let want = if i == s && value > regs[i] { value } else { regs[i] };
        assert!(a.get(i as u32) == want, "register is not the per-slot maximum");
        if want == 0 {
            zeros += 1;
        }
        i += 1;
    }
    assert!(a.num_zeros == zeros, "num_zeros does not track the zero registers");
    if value > regs[s] {
        assert!(ve::rec_count() == 1 && ve::rec_get(0) == (4, regs[s], value), "estimator not updated with (old, new)");
        assert!(a.num_zeros == z0 - if regs[s] == 0 { 1 } else { 0 });
    } else {
        assert!(ve::rec_count() == 0, "estimator updated although no register grew");
    }
    assert!(a.is_empty() == (zeros == 16));
    kani::cover!(value > regs[s] && regs[s] == 0 && slot26 > 1000);
    kani::cover!(value <= regs[s]);
    core::mem::forget(a);
}

/// integer-only stand-in for rebuild_cached_values in register-model harnesses (the real function sums
/// floats over all registers; c03_array8_rebuild_cached_values checks it on its own)
pub(crate) static mut REBUILDS: u32 = 0;
pub(crate) fn stub_rebuild_cached_values(a: &mut Array8) {
    let mut z = 0u32;
    let mut i = 0;
    while i < a.bytes.len() {
        if a.bytes[i] == 0 {
            z += 1;
        }
        i += 1;
    }
    a.num_zeros = z;
    unsafe {
        REBUILDS += 1;
    }
}
pub(crate) fn rebuild_count() -> u32 {
    unsafe { REBUILDS }
}

fn spec_kxq(regs: &[u8]) -> (f64, f64) {
    // sum of 2^-r over registers, r < 32 into kxq0 and r >= 32 into kxq1 (exact in f64 for 16 registers)
    let mut k0 = 0.0f64;
    let mut k1 = 0.0f64;
    let mut i = 0;
    while i < regs.len() {
        let r = regs[i];
        let inv = f64::from_bits(((1023 - r as u64) & 0x7ff) << 52); // 2^-r built from its bit pattern
        if r < 32 {
            k0 += inv;
        } else {
            k1 += inv;
        }
        i += 1;
    }
    (k0, k1)
}

//@ props: C03 C17
//@ tier: quick
//@ timeout: 900
//@ functions: hll::array8::Array8::merge_array_same_lgk
//@ functions: hll::array8::Array8::merge_array_with_downsample
//@ functions: hll::array8::Array8::rebuild_cached_values
//@ functions: hll::array8::Array8::rebuild_estimator_from_registers
//@ bounds: destination lg_k = 3 (8 registers), source lg_k = 3 (same) and lg_k = 4 (down-sampling), every register content 0..=63
//@ desc: merge = slot-wise maximum with source slots folded by slot & (2^dst - 1); afterwards the cached values are rebuilt (num_zeros = zero count; the kxq sums are checked by c03_array8_rebuild_cached_values), the out-of-order flag is set and hip_accum cleared
#[kani::proof]
#[kani::unwind(18)]
#[kani::stub(Array8::rebuild_cached_values, stub_rebuild_cached_values)]
fn c03_array8_merge_model() {
    let d: [u8; 8] = kani::any();
    let s8: [u8; 8] = kani::any();
    let s16: [u8; 16] = kani::any();
    let mut i = 0;
    while i < 16 {
        kani::assume(s16[i] <= 63);
        if i < 8 {
            kani::assume(d[i] <= 63 && s8[i] <= 63);
        }
        i += 1;
    }
    let mut a = raw_array8(3, &d, ve::raw_estimator(123.0, 8.0, 0.0, false));
    a.merge_array_same_lgk(&s8);
    let mut model = [0u8; 8];
    let mut i = 0;
    while i < 8 {
        model[i] = if d[i] > s8[i] { d[i] } else { s8[i] };
        assert!(a.get(i as u32) == model[i], "same-lg_k merge is not the slot-wise maximum");
        i += 1;
    }
    assert!(rebuild_count() == 1, "cached values not rebuilt after the merge");
    assert!(a.estimator.is_out_of_order() && a.estimator.hip_accum() == 0.0, "merged array not marked out-of-order");
    let mut z = 0;
    let mut i = 0;
    while i < 8 {
        if model[i] == 0 {
            z += 1;
        }
        i += 1;
    }
    assert!(a.num_zeros == z, "num_zeros not rebuilt");

    let mut b = raw_array8(3, &d, ve::raw_estimator(5.0, 8.0, 0.0, false));
    b.merge_array_with_downsample(&s16, 4);
    let mut i = 0;
    while i < 8 {
        let mut m = d[i];
        if s16[i] > m {
            m = s16[i];
        }
        if s16[i + 8] > m {
            m = s16[i + 8];
        }
        assert!(b.get(i as u32) == m, "down-sampling merge is not the folded maximum");
        model[i] = m;
        i += 1;
    }
    assert!(rebuild_count() == 2, "cached values not rebuilt after the down-sampling merge");
    assert!(b.estimator.is_out_of_order());
    kani::cover!(model[0] >= 32 && model[1] == 0);
    core::mem::forget((a, b));
}

//@ props: C03 C17
//@ tier: quick
//@ timeout: 900
//@ functions: hll::array8::Array8::rebuild_cached_values
//@ bounds: register files of 4 registers, values from the concrete boundary set {0, 1, 31, 32, 63} chosen symbolically per register
//@ desc: rebuild_cached_values sets num_zeros to the zero count and kxq0 / kxq1 to the exact sums of 2^-register (registers < 32 resp. >= 32)
#[kani::proof]
#[kani::unwind(8)]
fn c03_array8_rebuild_cached_values() {
    let vals = [0u8, 1, 31, 32, 63];
    let mut regs = [0u8; 4];
    let mut i = 0;
    while i < 4 {
        let j: usize = kani::any();
        kani::assume(j < 5);
        regs[i] = vals[j];
        i += 1;
    }
    let mut a = raw_array8(2, &regs, ve::raw_estimator(9.0, 1.0, 1.0, false));
    a.num_zeros = 99;
    a.rebuild_cached_values();
    let (k0, k1) = spec_kxq(&regs);
    let mut z = 0;
    let mut i = 0;
    while i < 4 {
        if regs[i] == 0 {
            z += 1;
        }
        i += 1;
    }
    assert!(a.num_zeros == z, "num_zeros not rebuilt");
    assert!(a.estimator.kxq0() == k0, "kxq0 not rebuilt from the registers");
    assert!(a.estimator.kxq1() == k1, "kxq1 not rebuilt from the registers");
    kani::cover!(z == 2 && k1 > 0.0);
    core::mem::forget(a);
}
