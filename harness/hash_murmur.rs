//@@ attach: hash/murmurhash.rs
// MurmurHash3 x64 128: streaming write() as one inductive step, finish128() against the reference
// tail + finalisation, and end-to-end one-shot equality. Multiplication is an uninterpreted function
// (see common.rs uf_mul): a proof holds for every interpretation of wrapping_mul, hence the real one.
use super::*;
use crate::verif_kani_common::{uf_mul, uf_reset};

const RC1: u64 = 0x87c37b91114253d5;
const RC2: u64 = 0x4cf5ad432745937f;

fn rd64(b: &[u8], off: usize) -> u64 {
    let mut v = 0u64;
    let mut i = 0;
    while i < 8 {
        v |= (b[off + i] as u64) << (8 * i);
        i += 1;
    }
    v
}

/// reference block mix (Appleby, MurmurHash3_x64_128 body)
fn ref_block(h1: &mut u64, h2: &mut u64, mut k1: u64, mut k2: u64) {
    k1 = k1.wrapping_mul(RC1);
    k1 = k1.rotate_left(31);
    k1 = k1.wrapping_mul(RC2);
    *h1 ^= k1;
    *h1 = h1.rotate_left(27);
    *h1 = h1.wrapping_add(*h2);
    *h1 = h1.wrapping_mul(5).wrapping_add(0x52dce729);
    k2 = k2.wrapping_mul(RC2);
    k2 = k2.rotate_left(33);
    k2 = k2.wrapping_mul(RC1);
    *h2 ^= k2;
    *h2 = h2.rotate_left(31);
    *h2 = h2.wrapping_add(*h1);
    *h2 = h2.wrapping_mul(5).wrapping_add(0x38495ab5);
}

fn ref_fmix(mut k: u64) -> u64 {
    k ^= k >> 33;
    k = k.wrapping_mul(0xff51afd7ed558ccd);
    k ^= k >> 33;
    k = k.wrapping_mul(0xc4ceb9fe1a85ec53);
    k ^= k >> 33;
    k
}

/// reference tail + finalisation for `rem` leftover bytes after `blocks_bytes` processed bytes
fn ref_finish(mut h1: u64, mut h2: u64, tail: &[u8], rem: usize, total_len: u64) -> (u64, u64) {
    let mut k1 = 0u64;
    let mut k2 = 0u64;
    let mut i = 0;
    while i < rem {
        if i < 8 {
            k1 |= (tail[i] as u64) << (8 * i);
        } else {
            k2 |= (tail[i] as u64) << (8 * (i - 8));
        }
        i += 1;
    }
    if rem > 8 {
        k2 = k2.wrapping_mul(RC2);
        k2 = k2.rotate_left(33);
        k2 = k2.wrapping_mul(RC1);
        h2 ^= k2;
    }
    if rem > 0 {
        k1 = k1.wrapping_mul(RC1);
        k1 = k1.rotate_left(31);
        k1 = k1.wrapping_mul(RC2);
        h1 ^= k1;
    }
    h1 ^= total_len;
    h2 ^= total_len;
    h1 = h1.wrapping_add(h2);
    h2 = h2.wrapping_add(h1);
    h1 = ref_fmix(h1);
    h2 = ref_fmix(h2);
    h1 = h1.wrapping_add(h2);
    h2 = h2.wrapping_add(h1);
    (h1, h2)
}

/// one write() step from an arbitrary hasher state with B buffered bytes and an N-byte chunk
fn write_case<const B: usize, const N: usize>() {
    uf_reset();
    let h1: u64 = kani::any();
    let h2: u64 = kani::any();
    let total: u64 = kani::any();
    kani::assume(total < (1u64 << 60));
    let pre: [u8; 16] = kani::any();
    let chunk: [u8; N] = kani::any();
    let mut st = MurmurHash3X64128 { h1, h2, total, buf: pre, buf_len: B };
    st.write(&chunk);
    // specification: the byte string buf[..B] ++ chunk is cut into 16-byte blocks
    let mut cat = [0u8; 64];
    let mut i = 0;
    while i < B {
        cat[i] = pre[i];
        i += 1;
    }
    let mut i = 0;
    while i < N {
        cat[B + i] = chunk[i];
        i += 1;
    }
    let len = B + N;
    let blocks = len / 16;
    let mut r1 = h1;
    let mut r2 = h2;
    let mut b = 0;
    while b < blocks {
        ref_block(&mut r1, &mut r2, rd64(&cat, 16 * b), rd64(&cat, 16 * b + 8));
        b += 1;
    }
    let rem = len % 16;
    assert!(st.h1 == r1 && st.h2 == r2, "streaming state differs from the reference block mix");
    assert!(st.total == total + 16 * blocks as u64, "processed-length counter wrong");
    assert!(st.buf_len == rem, "buffered length wrong");
    let mut i = 0;
    while i < rem {
        assert!(st.buf[i] == cat[16 * blocks + i], "buffered tail bytes wrong");
        i += 1;
    }
}

macro_rules! write_step {
    ($name:ident, $b:expr, [$($n:expr),*]) => {
        #[kani::proof]
        #[kani::unwind(70)]
        #[kani::stub(u64::wrapping_mul, uf_mul)]
        fn $name() {
            $( write_case::<$b, $n>(); )*
            kani::cover!(true);
        }
    };
}

//@ family: write_step
//@ props: C16
//@ tier: thorough
//@ timeout: 1800
//@ functions: hash::MurmurHash3X64128::write
//@ functions: hash::MurmurHash3X64128::update
//@ stubs: u64::wrapping_mul -> uf_mul (uninterpreted function)
//@ unwind: 70
//@ bounds: any hasher state (h1, h2, total < 2^60, buffer bytes symbolic) with a concrete number b of buffered bytes, chunk of concrete length n with symbolic content; the (b, n) pairs of the instance; by induction any chunking into chunks <= 33 bytes reaches the one-shot state
//@ desc: write(chunk) leaves exactly the state the specification gives: full 16-byte blocks of buffer++chunk through the reference block mix, the rest buffered
write_step!(c16_murmur_write_b0, 0, [0, 1, 15, 16, 17, 32, 33]); //@ tier: quick
write_step!(c16_murmur_write_b1, 1, [0, 14, 15, 16, 31, 33]); //@ tier: quick
write_step!(c16_murmur_write_b7, 7, [1, 8, 9, 10, 25, 26]);
write_step!(c16_murmur_write_b8, 8, [0, 7, 8, 9, 24, 25]); //@ tier: quick
write_step!(c16_murmur_write_b15, 15, [0, 1, 2, 16, 17, 18, 33]); //@ tier: quick
write_step!(c16_murmur_write_b2, 2, [13, 14, 15, 30]);
write_step!(c16_murmur_write_b3, 3, [12, 13, 14, 29]);
write_step!(c16_murmur_write_b4, 4, [4, 11, 12, 13, 28]);
write_step!(c16_murmur_write_b5, 5, [10, 11, 12, 27]);
write_step!(c16_murmur_write_b6, 6, [9, 10, 11, 26]);
write_step!(c16_murmur_write_b9, 9, [6, 7, 8, 23]);
write_step!(c16_murmur_write_b10, 10, [5, 6, 7, 22]);
write_step!(c16_murmur_write_b11, 11, [4, 5, 6, 21]);
write_step!(c16_murmur_write_b12, 12, [3, 4, 5, 20]);
write_step!(c16_murmur_write_b13, 13, [2, 3, 4, 19]);
write_step!(c16_murmur_write_b14, 14, [1, 2, 3, 18]);
//@ endfamily: x

fn finish_case<const B: usize>() {
    uf_reset();
    let h1: u64 = kani::any();
    let h2: u64 = kani::any();
    let total: u64 = kani::any();
    kani::assume(total < (1u64 << 60));
    let pre: [u8; 16] = kani::any();
    let st = MurmurHash3X64128 { h1, h2, total, buf: pre, buf_len: B };
    let got = st.finish128();
    let want = ref_finish(h1, h2, &pre, B, total + B as u64);
    assert!(got == want, "finish128 differs from the reference tail + finalisation");
    assert!(st.finish() == want.0, "finish() is not h1");
}

//@ props: C16
//@ tier: quick
//@ timeout: 1800
//@ functions: hash::MurmurHash3X64128::finish128
//@ functions: hash::fmix64
//@ functions: hash::read_u64_le
//@ stubs: u64::wrapping_mul -> uf_mul
//@ bounds: any hasher state, every number of buffered bytes 0..=15
//@ desc: finish128 of any state equals the reference tail processing and finalisation of the buffered bytes with total length = processed + buffered
#[kani::proof]
#[kani::unwind(40)]
#[kani::stub(u64::wrapping_mul, uf_mul)]
fn c16_murmur_finish_all_tails() {
    finish_case::<0>();
    finish_case::<1>();
    finish_case::<2>();
    finish_case::<3>();
    finish_case::<4>();
    finish_case::<5>();
    finish_case::<6>();
    finish_case::<7>();
    finish_case::<8>();
    finish_case::<9>();
    finish_case::<10>();
    finish_case::<11>();
    finish_case::<12>();
    finish_case::<13>();
    finish_case::<14>();
    finish_case::<15>();
    kani::cover!(true);
}

fn oneshot_case<const N: usize>() {
    uf_reset();
    let seed: u64 = kani::any();
    let data: [u8; N] = kani::any();
    let mut h = MurmurHash3X64128::with_seed(seed);
    h.write(&data);
    let got = h.finish128();
    let want = crate::verif_kani_common::refhash::murmur3_x64_128(&data, N, seed);
    assert!(got == want, "one-shot digest differs from the reference algorithm");
}

//@ props: C16
//@ tier: quick
//@ timeout: 1800
//@ functions: hash::MurmurHash3X64128::with_seed
//@ functions: hash::MurmurHash3X64128::write
//@ functions: hash::MurmurHash3X64128::finish128
//@ stubs: u64::wrapping_mul -> uf_mul
//@ bounds: one-shot inputs of length 0, 1, 8, 9, 15, 16, 17, 31, 32 with symbolic content and symbolic seed (cross-check of the step + finish decomposition against an independently written whole-string reference)
//@ desc: with_seed + write + finish128 equals the reference MurmurHash3_x64_128 of the whole byte string
#[kani::proof]
#[kani::unwind(40)]
#[kani::stub(u64::wrapping_mul, uf_mul)]
fn c16_murmur_oneshot_reference() {
    oneshot_case::<0>();
    oneshot_case::<1>();
    oneshot_case::<8>();
    oneshot_case::<9>();
    oneshot_case::<15>();
    oneshot_case::<16>();
    oneshot_case::<17>();
    oneshot_case::<31>();
    oneshot_case::<32>();
    kani::cover!(true);
}

//@ props: C16
//@ tier: quick
//@ timeout: 600
//@ functions: hash::compute_seed_hash
//@ bounds: seeds 9001, 0 (panics: seed hash 0 is rejected - excluded), 1, 12345, u64::MAX (concrete; real multiplication, constant-folded)
//@ desc: compute_seed_hash(seed) = low 16 bits of h1 of MurmurHash3(LE bytes of seed; seed 0) per the reference; 9001 -> 0x93CC (the value Java/C++ publish)
#[kani::proof]
#[kani::unwind(20)]
fn c16_seed_hash_reference() {
    let seeds = [9001u64, 1, 12345, u64::MAX];
    let mut i = 0;
    while i < 4 {
        let (h1, _) = crate::verif_kani_common::refhash::murmur3_x64_128(&seeds[i].to_le_bytes(), 8, 0);
        assert!(crate::hash::compute_seed_hash(seeds[i]) == (h1 & 0xffff) as u16);
        i += 1;
    }
    assert!(crate::hash::compute_seed_hash(9001) == 0x93CC, "default seed hash is not the published 0x93CC");
    kani::cover!(true);
}
