//@@ attach: hll/container.rs
#![allow(static_mut_refs)]
use super::*;

static mut INTERP: f64 = 0.0;

/// the interpolation is a function of len only: one arbitrary value per harness run
fn stub_interp(_x: &[f64], _y: &[f64], _v: f64) -> f64 {
    unsafe { INTERP }
}

//@ props: C01 C17
//@ tier: quick
//@ timeout: 600
//@ functions: hll::container::Container::estimate
//@ functions: hll::container::Container::upper_bound
//@ functions: hll::container::Container::lower_bound
//@ stubs: the cubic coupon-interpolation returns an arbitrary finite value >= 0 (its value is a table lookup outside this claim)
//@ bounds: coupon containers with len 0..=2^18 (symbolic), every interpolation value in [0, 1e9], sigma 1..=3
//@ desc: for list / set mode lower_bound(s) <= estimate <= upper_bound(s) with the intervals nested in s, for every value the interpolation may return; estimate is never below the number of coupons
fn coupon_bounds_case<const SIGMA: u8>() {
    let len: usize = kani::any();
    kani::assume(len <= (1 << 18));
    let c = Container { lg_size: 3, coupons: vec![0u32; 8].into_boxed_slice(), len };
    let e: f64 = kani::any();
    kani::assume(e >= 0.0 && e <= 1.0e9);
    unsafe {
        INTERP = e;
    }
    let est = c.estimate();
    assert!(est >= len as f64, "coupon-mode estimate below the number of distinct coupons");
    let sd: u8 = SIGMA;
    let s = match sd {
        1 => NumStdDev::One,
        2 => NumStdDev::Two,
        _ => NumStdDev::Three,
    };
    let lb = c.lower_bound(s);
    let ub = c.upper_bound(s);
    assert!(lb <= est && est <= ub, "coupon-mode bounds do not bracket the estimate");
    assert!(lb >= len as f64, "lower bound below the number of distinct coupons");
    if sd < 3 {
        let s2 = if sd == 1 { NumStdDev::Two } else { NumStdDev::Three };
        assert!(c.lower_bound(s2) <= lb && ub <= c.upper_bound(s2), "coupon-mode bounds are not nested in sigma");
    }
    kani::cover!(len == 7);
    core::mem::forget(c);
}

#[kani::proof]
#[kani::stub(crate::hll::cubic_interpolation::using_x_and_y_tables, stub_interp)]
fn c01_hll_coupon_mode_bounds_s1() {
    coupon_bounds_case::<1>();
}

//@ props: C01 C17
//@ tier: thorough
//@ timeout: 1800
//@ functions: hll::container::Container::estimate
//@ functions: hll::container::Container::upper_bound
//@ functions: hll::container::Container::lower_bound
//@ bounds: as c01_hll_coupon_mode_bounds_s1, sigma = 2 (nested in 3)
//@ desc: coupon-mode bounds bracket the estimate at sigma 2 and are contained in the sigma 3 interval
#[kani::proof]
#[kani::stub(crate::hll::cubic_interpolation::using_x_and_y_tables, stub_interp)]
fn c01_hll_coupon_mode_bounds_s2() {
    coupon_bounds_case::<2>();
}
