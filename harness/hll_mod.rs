//@@ attach: hll/mod.rs
// coupon derivation and the slot / value packing laws.
use super::*;

//@ props: C02 C16
//@ tier: quick
//@ timeout: 300
//@ functions: hll::pack_coupon
//@ functions: hll::get_slot
//@ functions: hll::get_value
//@ bounds: every slot (u32) and value (u8 <= 63)
//@ desc: pack_coupon / get_slot / get_value are mutually inverse on 26-bit slots and 6-bit values; a coupon with value >= 1 is never the empty marker 0
#[kani::proof]
fn c02_coupon_pack_laws() {
    let slot: u32 = kani::any();
    let value: u8 = kani::any();
    kani::assume(value <= 63);
    let c = pack_coupon(slot, value);
    assert!(get_slot(c) == slot & 0x3ff_ffff);
    assert!(get_value(c) == value);
    assert!(c == ((value as u32) << 26) | (slot & 0x3ff_ffff));
    if value >= 1 {
        assert!(c != 0);
    }
    kani::cover!(value == 63 && slot == u32::MAX);
}

//@ props: C02 C16
//@ tier: quick
//@ timeout: 600
//@ functions: hll::coupon
//@ bounds: items 0u64, 1u64, 42u64, u64::MAX and the bytes "abc" fed as a slice-like write; default seed 9001; all concrete (hash constant-folded), reference = /verif's MurmurHash3 transcription
//@ desc: coupon(item) = (min(lz(h2), 62) + 1) << 26 | (h1 & 0x3ffffff) of the reference MurmurHash3_x64_128 digest of the item's hashed bytes
#[kani::proof]
#[kani::unwind(20)]
fn c02_coupon_reference() {
    let items = [0u64, 1, 42, u64::MAX];
    let mut i = 0;
    while i < 4 {
        let (lo, hi) = crate::verif_kani_common::refhash::murmur3_x64_128(&items[i].to_le_bytes(), 8, 9001);
        let lz = hi.leading_zeros();
        let v = (if lz > 62 { 62 } else { lz }) + 1;
        let want = (v << 26) | ((lo as u32) & 0x3ff_ffff);
        assert!(coupon(items[i]) == want, "coupon differs from the reference derivation");
        assert!(get_value(want) >= 1 && get_value(want) <= 63);
        i += 1;
    }
    kani::cover!(true);
}
