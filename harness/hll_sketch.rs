//@@ attach: hll/sketch.rs
//@@ needs: hll_estimator.rs
// HllSketch::update_with_coupon: mode dispatch, promotion list -> set -> array with every coupon
// replayed, identical estimator call sequence for the three target types.
use super::*;
use crate::hll::estimator::verif_kani_hll_estimator as ve;
use crate::hll::estimator::verif_kani_hll_estimator::rec_update;
use crate::hll::{get_slot, get_value};

fn any_type() -> HllType {
    let t: u8 = kani::any();
    kani::assume(t < 3);
    match t {
        0 => HllType::Hll4,
        1 => HllType::Hll6,
        _ => HllType::Hll8,
    }
}

fn reg(s: &HllSketch, slot: u32) -> u8 {
    match s.mode() {
        Mode::Array4(a) => a.get(slot),
        Mode::Array6(a) => a.get(slot),
        Mode::Array8(a) => a.get(slot),
        _ => panic!("not in array mode"),
    }
}

fn stub_container_estimate(_c: &Container) -> f64 {
    // coupon-interpolation estimate (cubic interpolation tables) is not the subject here
    7.0
}

/// 8 distinct non-zero coupons with values 1..=63
fn any_coupons() -> [u32; 8] {
    let c: [u32; 8] = kani::any();
    let mut i = 0;
    while i < 8 {
        kani::assume(get_value(c[i]) >= 1);
        let mut j = 0;
        while j < i {
            kani::assume(c[j] != c[i]);
            j += 1;
        }
        i += 1;
    }
    c
}

macro_rules! promote_to_array {
    ($name:ident, $t:expr) => {
        #[kani::proof]
        #[kani::unwind(18)]
        #[kani::stub(crate::hll::estimator::HipEstimator::update, rec_update)]
        #[kani::stub(crate::hll::container::Container::estimate, stub_container_estimate)]
        fn $name() {
            let c = any_coupons();
            // register values kept within one nibble range of each other so that the Hll4 instance
            // stays away from exceptions / cur_min shifts (those are c02_array4_* harnesses)
            let mut i = 0;
            while i < 8 {
                kani::assume(get_value(c[i]) <= 14);
                i += 1;
            }
            let mut s = HllSketch::new(4, $t);
            ve::rec_reset();
            let mut i = 0;
            while i < 8 {
                assert!(matches!(s.mode(), Mode::List { .. }), "left list mode before the 8th distinct coupon");
                s.update_with_coupon(c[i]);
                i += 1;
            }
            assert!(!matches!(s.mode(), Mode::List { .. } | Mode::Set { .. }), "lg_k < 8 must promote a full list straight to an array");
            assert!(s.target_type() == $t && s.lg_config_k() == 4);
            // model: per-slot maximum over the 8 coupons
            let mut model = [0u8; 16];
            let mut i = 0;
            while i < 8 {
                let sl = (get_slot(c[i]) & 15) as usize;
                if get_value(c[i]) > model[sl] {
                    model[sl] = get_value(c[i]);
                }
                i += 1;
            }
            let mut sl = 0;
            while sl < 16 {
                assert!(reg(&s, sl as u32) == model[sl], "register after promotion is not the per-slot maximum of the coupons");
                sl += 1;
            }
            // the estimator saw exactly the register-increasing replays, in list order
            let mut run = [0u8; 16];
            let mut calls = 0;
            let mut i = 0;
            while i < 8 {
                let sl = (get_slot(c[i]) & 15) as usize;
                let v = get_value(c[i]);
                if v > run[sl] {
                    assert!(calls < 8 && ve::rec_get(calls) == (4, run[sl], v), "estimator call sequence differs from the coupon replay");
                    run[sl] = v;
                    calls += 1;
                }
                i += 1;
            }
            assert!(ve::rec_count() == calls, "number of estimator updates differs from the number of register increases");
            kani::cover!(calls == 8);
            kani::cover!(calls < 8);
            core::mem::forget(s);
        }
    };
}

//@ family: promote_to_array
//@ props: C02 C17 C18
//@ tier: thorough
//@ timeout: 1800
//@ functions: hll::sketch::HllSketch::update_with_coupon
//@ functions: hll::sketch::promote_container_to_array
//@ functions: hll::list::List::update
//@ functions: hll::array4::Array4::update
//@ functions: hll::array6::Array6::update
//@ functions: hll::array8::Array8::update
//@ unwind: 18
//@ stubs: HipEstimator::update -> recorder; Container::estimate -> constant (coupon-interpolation tables are C01's subject)
//@ bounds: lg_k = 4, a history of 8 distinct symbolic coupons (slot bits arbitrary, values 1..=14) fed to an empty sketch: list mode for 7, promotion to the array of the target type at the 8th
//@ replay_stub: hll/estimator.rs | pub fn update(&mut self, lg_config_k: u8, old_value: u8, new_value: u8) { | return self::verif_kani_hll_estimator::rec_update(self, lg_config_k, old_value, new_value);
//@ desc: promotion replays every coupon: afterwards register[slot] = max value over the coupons mapped to the slot; the estimator receives exactly the register-increasing updates in list order - the same sequence for Hll4, Hll6 and Hll8, hence identical estimator state, estimates and bounds (determinism)
promote_to_array!(c02_promote_list_to_array8, HllType::Hll8);
promote_to_array!(c02_promote_list_to_array6, HllType::Hll6);
promote_to_array!(c02_promote_list_to_array4, HllType::Hll4);
//@ endfamily: x

//@ props: C02 C17 C18
//@ tier: thorough
//@ timeout: 1800
//@ functions: hll::sketch::HllSketch::update_with_coupon
//@ functions: hll::sketch::promote_container_to_set
//@ functions: hll::hash_set::HashSet::update
//@ bounds: lg_k = 8..=21 (symbolic), target type symbolic: 8 distinct symbolic coupons then a 9th
//@ desc: at lg_k >= 8 the full list is promoted to a set holding exactly the same 8 coupons (none lost, none invented); the 9th coupon is added with set semantics; list never exceeds 8 entries
#[kani::proof]
#[kani::unwind(34)]
fn c02_promote_list_to_set() {
    let c = any_coupons();
    let lg_k: u8 = kani::any();
    kani::assume(lg_k >= 8 && lg_k <= 21);
    let mut s = HllSketch::new(lg_k, any_type());
    let mut i = 0;
    while i < 8 {
        s.update_with_coupon(c[i]);
        i += 1;
    }
    let x: u32 = kani::any();
    kani::assume(get_value(x) >= 1);
    let mut dup = false;
    let mut i = 0;
    while i < 8 {
        if c[i] == x {
            dup = true;
        }
        i += 1;
    }
    s.update_with_coupon(x);
    match s.mode() {
        Mode::Set { set, .. } => {
            assert!(set.container().len() == 8 + if dup { 0 } else { 1 }, "set does not hold the distinct coupons");
            assert!(set.container().lg_size() == 5);
            let mut i = 0;
            while i < 8 {
                let mut found = false;
                let mut j = 0;
                while j < 32 {
                    if set.container().coupons[j] == c[i] {
                        found = true;
                    }
                    j += 1;
                }
                assert!(found, "coupon lost in the list -> set promotion");
                i += 1;
            }
        }
        _ => panic!("expected set mode after 8 coupons at lg_k >= 8"),
    }
    kani::cover!(dup);
    kani::cover!(!dup);
    core::mem::forget(s);
}

fn cut_set_update(_s: &mut HashSet, _coupon: u32) {}
static mut SET_PROMOTIONS: u32 = 0;
/// promote_container_to_set without the coupon replay: the set it starts from (HashSet::default(), as in the
/// real function's first line); the replay loop is c02_promote_list_to_set's subject
fn rec_promote_to_set(_c: &Container, hll_type: HllType) -> Mode {
    unsafe {
        SET_PROMOTIONS += 1;
    }
    Mode::Set { set: HashSet::default(), hll_type }
}
fn cut_grow_set(_old: &HashSet, _t: HllType) -> Mode {
    panic!("verif cut: grow_set reached within the first 8 updates of a sketch");
}
fn cut_array4_update(_a: &mut Array4, _coupon: u32) {
    panic!("verif cut: an array-mode update reached while the sketch is still a list");
}
fn cut_array6_update(_a: &mut Array6, _coupon: u32) {
    panic!("verif cut: an array-mode update reached while the sketch is still a list");
}
fn cut_array8_update(_a: &mut Array8, _coupon: u32) {
    panic!("verif cut: an array-mode update reached while the sketch is still a list");
}

// ---------------------------------------------------------------------------------------------
// Promotions in contract form (quick): the three promotion functions replay EVERY coupon of the source
// container exactly once into the new representation. The target's update() is a recorder (its own
// step semantics are c02_set_update_step_* / c02_array*_update_*), so only the replay is decided.
// ---------------------------------------------------------------------------------------------
static mut PR_REC: [u32; 9] = [0; 9];
static mut PR_N: usize = 0;
fn pr_record(c: u32) {
    unsafe {
        if PR_N < 9 {
            PR_REC[PR_N] = c;
        }
        PR_N += 1;
    }
}
pub(crate) fn pr_set_update(_s: &mut HashSet, c: u32) {
    pr_record(c)
}
pub(crate) fn pr_array4_update(_a: &mut Array4, c: u32) {
    pr_record(c)
}
pub(crate) fn pr_array6_update(_a: &mut Array6, c: u32) {
    pr_record(c)
}
pub(crate) fn pr_array8_update(_a: &mut Array8, c: u32) {
    pr_record(c)
}
pub(crate) fn pr_estimate(_c: &Container) -> f64 {
    8.0
}
fn pr_container() -> (Container, [u32; 8]) {
    let slots: [u32; 8] = kani::any();
    let mut c = Container::new(3);
    let mut n = 0;
    let mut i = 0;
    while i < 8 {
        c.coupons[i] = slots[i];
        if slots[i] != 0 {
            n += 1;
        }
        i += 1;
    }
    c.len = n;
    unsafe {
        PR_N = 0;
    }
    (c, slots)
}
fn pr_check(slots: &[u32; 8]) {
    let mut j = 0usize;
    let mut i = 0;
    while i < 8 {
        if slots[i] != 0 {
            assert!(j < 9 && unsafe { PR_REC[j] } == slots[i], "a coupon of the source container was not replayed (or out of order / altered)");
            j += 1;
        }
        i += 1;
    }
    assert!(unsafe { PR_N } == j, "the promotion replayed something that is not a coupon of the source");
}

fn pr_case_set() {
    let t = any_type();
    let (c, slots) = pr_container();
    let m = promote_container_to_set(&c, t);
    pr_check(&slots);
    match &m {
        Mode::Set { set, hll_type } => {
            assert!(*hll_type == t && set.container().lg_size() == 5);
        }
        _ => panic!("list -> set promotion did not produce a set"),
    }
    kani::cover!(unsafe { PR_N } == 8);
    kani::cover!(unsafe { PR_N } == 0);
    core::mem::forget(m);
    core::mem::forget(c);
}
fn pr_case_grow() {
    let t = any_type();
    let (c, slots) = pr_container();
    let old: HashSet = unsafe { core::mem::transmute::<Container, HashSet>(c) };
    let m = grow_set(&old, t);
    pr_check(&slots);
    match &m {
        Mode::Set { set, hll_type } => {
            assert!(*hll_type == t && set.container().lg_size() == 4, "grow_set does not double the table");
        }
        _ => panic!("grow_set did not produce a set"),
    }
    kani::cover!(unsafe { PR_N } == 8);
    kani::cover!(unsafe { PR_N } == 0);
    core::mem::forget(m);
    core::mem::forget(old);
}
fn pr_case_array(t: HllType) {
    let (c, slots) = pr_container();
    let m = promote_container_to_array(&c, t, 4);
    pr_check(&slots);
    let ok = match (&m, t) {
        (Mode::Array4(_), HllType::Hll4) | (Mode::Array6(_), HllType::Hll6) | (Mode::Array8(_), HllType::Hll8) => true,
        _ => false,
    };
    assert!(ok, "array promotion produced a different target type");
    kani::cover!(unsafe { PR_N } == 8);
    kani::cover!(unsafe { PR_N } == 0);
    core::mem::forget(m);
    core::mem::forget(c);
}

macro_rules! promotion_replay {
    ($name:ident, $body:expr) => {
        #[kani::proof]
        #[kani::unwind(10)]
        #[kani::stub(crate::hll::hash_set::HashSet::update, pr_set_update)]
        #[kani::stub(Array4::update, pr_array4_update)]
        #[kani::stub(Array6::update, pr_array6_update)]
        #[kani::stub(Array8::update, pr_array8_update)]
        #[kani::stub(crate::hll::container::Container::estimate, pr_estimate)]
        fn $name() {
            $body;
        }
    };
}

//@ family: promotion_replay
//@ props: C02
//@ tier: quick
//@ timeout: 900
//@ functions: hll::sketch::promote_container_to_set
//@ functions: hll::sketch::grow_set
//@ functions: hll::sketch::promote_container_to_array
//@ functions: hll::container::Container::iter
//@ stubs: HashSet::update, Array4::update, Array6::update, Array8::update -> recorders; Container::estimate -> constant
//@ replay_stub: hll/hash_set.rs | pub fn update(&mut self, coupon: u32) { | if true { return crate::hll::sketch::verif_kani_hll_sketch::pr_set_update(self, coupon); }
//@ replay_stub: hll/array4.rs | pub fn update(&mut self, coupon: u32) { | if true { return crate::hll::sketch::verif_kani_hll_sketch::pr_array4_update(self, coupon); }
//@ replay_stub: hll/array6.rs | pub fn update(&mut self, coupon: u32) { | if true { return crate::hll::sketch::verif_kani_hll_sketch::pr_array6_update(self, coupon); }
//@ replay_stub: hll/array8.rs | pub fn update(&mut self, coupon: u32) { | if true { return crate::hll::sketch::verif_kani_hll_sketch::pr_array8_update(self, coupon); }
//@ replay_stub: hll/container.rs | pub fn estimate(&self) -> f64 { | if true { return crate::hll::sketch::verif_kani_hll_sketch::pr_estimate(self); }
//@ bounds: a source container of 8 slots with arbitrary contents (0 = empty slot, any number of coupons 0..=8, any u32 values), every target type; the array is created at lg_k = 4
//@ assumes: the target's update() has the step semantics decided by c02_set_update_step_* / c02_array*_update_*
//@ desc: promote_container_to_set, grow_set and promote_container_to_array hand every coupon of the source container exactly once, unaltered, to the new representation's update() and nothing else; the new set is one size larger than the old one (grow_set) resp. 2^5 (list -> set); the mode carries the requested target type
//@ unwind: 10
promotion_replay!(c02_promotion_replay_list_to_set, pr_case_set());
promotion_replay!(c02_promotion_replay_grow_set, pr_case_grow());
promotion_replay!(c02_promotion_replay_to_array4, pr_case_array(HllType::Hll4));
promotion_replay!(c02_promotion_replay_to_array6, pr_case_array(HllType::Hll6));
promotion_replay!(c02_promotion_replay_to_array8, pr_case_array(HllType::Hll8));
//@ endfamily: x

static mut ARRAY_PROMOTIONS: u32 = 0;
static mut ARRAY_PROMOTION_LG_K: u8 = 0;
/// recorder standing in for promote_container_to_array (the replay itself is c02_promote_list_to_array*)
fn rec_promote_to_array(_c: &Container, _t: HllType, lg_config_k: u8) -> Mode {
    unsafe {
        ARRAY_PROMOTIONS += 1;
        ARRAY_PROMOTION_LG_K = lg_config_k;
    }
    Mode::Array8(Array8::new(4))
}

//@ props: C02 C17 C18
//@ tier: quick
//@ timeout: 1200
//@ functions: hll::sketch::HllSketch::update_with_coupon
//@ functions: hll::sketch::promote_container_to_set
//@ stubs: promote_container_to_array -> recorder (the coupon replay into the array is c02_promote_list_to_array*); promote_container_to_set -> HashSet::default() without the coupon replay (c02_promote_list_to_set); grow_set -> must-not-reach cut; HashSet::update -> no-op cut (the replay into the set is c02_promote_list_to_set); Array4/6/8::update -> must-not-reach cuts (the match on the mode enum is not folded by symbolic execution: without them every update explores all five modes)
//@ bounds: every lg_k in 4..=21 and target type (symbolic); a history of 8 concrete distinct coupons from the empty sketch (the decision depends on the list being full and on lg_k only)
//@ desc: mode life cycle as a function of lg_k: a full list goes straight to an HLL array iff lg_k < 8 and to a 2^5 set otherwise; the set is created with lg_size 5 <= lg_k - 3 (base case of the invariant lg_size <= lg_k - 3 under which c02_set_promotion_threshold_arithmetic shows that growth ends in the array promotion at 2^(lg_k-3) slots, which bounds the coupon-mode image by 8 + 4 * max(8, 3/4 * 2^(lg_k-3) + 1) bytes)
#[kani::proof]
#[kani::unwind(10)]
#[kani::stub(promote_container_to_array, rec_promote_to_array)]
#[kani::stub(grow_set, cut_grow_set)]
#[kani::stub(promote_container_to_set, rec_promote_to_set)]
#[kani::stub(crate::hll::hash_set::HashSet::update, cut_set_update)]
#[kani::stub(Array4::update, cut_array4_update)]
#[kani::stub(Array6::update, cut_array6_update)]
#[kani::stub(Array8::update, cut_array8_update)]
fn c18_mode_life_cycle_by_lg_k() {
    let lg_k: u8 = kani::any();
    kani::assume(lg_k >= 4 && lg_k <= 21);
    let t = any_type();
    unsafe {
        ARRAY_PROMOTIONS = 0;
        SET_PROMOTIONS = 0;
    }
    // eight concrete distinct coupons: the promotion decision depends on the list being full and on lg_k
    // only; which coupons fill it is the subject of c02_list_update_step / c02_promote_list_to_*
    let mut c = [0u32; 8];
    let mut i = 0;
    while i < 8 {
        c[i] = crate::hll::pack_coupon((i as u32) * 7 + 1, (i as u8 % 5) + 1);
        i += 1;
    }
    let mut s = HllSketch::new(lg_k, t);
    let mut i = 0;
    while i < 8 {
        assert!(matches!(s.mode(), Mode::List { .. }), "left list mode before the 8th distinct coupon");
        s.update_with_coupon(c[i]);
        i += 1;
    }
    let promoted = unsafe { ARRAY_PROMOTIONS };
    if lg_k < 8 {
        assert!(promoted == 1 && unsafe { ARRAY_PROMOTION_LG_K } == lg_k, "lg_k < 8: a full list must be promoted straight to an array of lg_k");
    } else {
        assert!(promoted == 0 && unsafe { SET_PROMOTIONS } == 1, "lg_k >= 8: a full list becomes a set first");
        match s.mode() {
            Mode::Set { set, hll_type } => {
                assert!(*hll_type == t);
                assert!(set.container().lg_size() + 3 <= lg_k as usize, "a set larger than 2^(lg_k-3) can never be promoted");
            }
            _ => panic!("expected set mode"),
        }
    }
    kani::cover!(lg_k == 7);
    kani::cover!(lg_k == 8);
    core::mem::forget(s);
}

//@ props: C02 C18
//@ tier: quick
//@ timeout: 300
//@ functions: hll::sketch::HllSketch::update_with_coupon
//@ bounds: every lg_k in 8..=21, every set size lg 5..=lg_k-3 and every len
//@ desc: promotion arithmetic of set mode: a set is grown / promoted exactly when 4*len > 3*capacity, is promoted to an array exactly at table size 2^(lg_k-3), so a set never holds more than 3/4 * 2^(lg_k-3) + 1 coupons
#[kani::proof]
fn c02_set_promotion_threshold_arithmetic() {
    let lg_k: u8 = kani::any();
    kani::assume(lg_k >= 8 && lg_k <= 21);
    let lg_size: usize = kani::any();
    kani::assume(lg_size >= 5 && lg_size <= lg_k as usize - 3);
    let cap = 1usize << lg_size;
    let len: usize = kani::any();
    kani::assume(len <= cap);
    let should = RESIZE_DENOMINATOR as usize * len > RESIZE_NUMERATOR as usize * cap;
    assert!(should == (4 * len > 3 * cap));
    if !should {
        assert!(len <= 3 * cap / 4);
        assert!(len < cap, "a set below the threshold always has a free slot");
    }
    kani::cover!(should && lg_size == lg_k as usize - 3);
}
