//@@ attach: hll/sketch.rs
//@@ needs: hll_estimator.rs hll_array8.rs hll_array6.rs
// HLL serialization: sub-parsers over symbolic bytes (C14), round trip + layout (C11/C12/C18),
// foreign variants (C13).
use super::*;
use crate::verif_kani_common::stub_format;

fn rd_u32(b: &[u8], o: usize) -> u32 {
    (b[o] as u32) | ((b[o + 1] as u32) << 8) | ((b[o + 2] as u32) << 16) | ((b[o + 3] as u32) << 24)
}
fn rd_u64(b: &[u8], o: usize) -> u64 {
    (rd_u32(b, o) as u64) | ((rd_u32(b, o + 4) as u64) << 32)
}

fn any_type() -> HllType {
    let t: u8 = kani::any();
    kani::assume(t < 3);
    match t {
        0 => HllType::Hll4,
        1 => HllType::Hll6,
        _ => HllType::Hll8,
    }
}

//@ props: C14
//@ tier: quick
//@ timeout: 1800
//@ functions: hll::sketch::HllSketch::deserialize
//@ functions: hll::list::List::deserialize
//@ functions: hll::hash_set::HashSet::deserialize
//@ bounds: every byte string of length 0..=40 whose mode byte selects LIST or SET (array modes: c14_hll_array_any_bytes); all header bytes symbolic
//@ desc: HllSketch::deserialize returns Ok or Err without panic (no shift overflow, no capacity overflow, no unreachable!, no out-of-bounds) for every list/set image; an Ok value can be queried, updated with any coupon and re-serialized without panicking
#[kani::proof]
#[kani::unwind(12)]
#[kani::stub(alloc::fmt::format, stub_format)]
fn c14_hll_coupon_modes_any_bytes() {
    let img: [u8; 40] = kani::any();
    let len: usize = kani::any();
    kani::assume(len <= 40);
    kani::assume(img[7] & 3 <= 1);
    let r = HllSketch::deserialize(&img[..len]);
    kani::cover!(r.is_ok());
    kani::cover!(r.is_err());
    if let Ok(mut s) = r {
        kani::cover!(matches!(s.mode, Mode::Set { .. }));
        let _ = s.is_empty();
        let _ = s.lg_config_k();
        let c: u32 = kani::any();
        kani::assume(c != 0 && (c >> 26) >= 1);
        if s.lg_config_k >= 8 {
            // (promotion to an array at lg_k < 8 is covered by the C02 harnesses)
            s.update_with_coupon(c);
        }
        let out = s.serialize();
        core::mem::forget(out);
        core::mem::forget(s);
    } else {
        core::mem::forget(r);
    }
}

//@ props: C14
//@ tier: quick
//@ timeout: 1800
//@ functions: hll::sketch::HllSketch::deserialize
//@ functions: hll::array4::Array4::deserialize
//@ functions: hll::array6::Array6::deserialize
//@ functions: hll::array8::Array8::deserialize
//@ functions: hll::aux_map::AuxMap::insert
//@ bounds: every byte string of length 0..=72 in HLL (array) mode with lg_k = 4 (16 registers); all other header bytes, the estimator fields, counts and payload symbolic
//@ desc: HllSketch::deserialize returns Ok or Err without panic for every array-mode image at lg_k = 4; an Ok value can be queried (registers) and re-serialized without panicking
#[kani::proof]
#[kani::unwind(20)]
#[kani::stub(alloc::fmt::format, stub_format)]
fn c14_hll_array_any_bytes() {
    let img: [u8; 72] = kani::any();
    let len: usize = kani::any();
    kani::assume(len <= 72);
    kani::assume(img[7] & 3 == 2 && img[3] == 4);
    let r = HllSketch::deserialize(&img[..len]);
    kani::cover!(r.is_ok());
    kani::cover!(r.is_err());
    if let Ok(s) = r {
        kani::cover!(matches!(s.mode, Mode::Array4(_)));
        kani::cover!(matches!(s.mode, Mode::Array6(_)));
        let _ = s.is_empty();
        let out = s.serialize();
        core::mem::forget(out);
        core::mem::forget(s);
    } else {
        core::mem::forget(r);
    }
}

//@ props: C11 C12 C18
//@ tier: quick
//@ timeout: 1800
//@ functions: hll::list::List::serialize
//@ functions: hll::list::List::deserialize
//@ functions: hll::sketch::HllSketch::serialize
//@ functions: hll::sketch::HllSketch::deserialize
//@ bounds: list-mode sketches with 0..=7 distinct symbolic coupons, every lg_k in 4..=21 and target type
//@ desc: the list image is 8 + 4c bytes in the Java/C++ layout (preInts 2, serVer 1, family 7, lgK @3, lgArr @4, flags @5 (empty bit 2, compact bit 3), count @6, mode byte @7 = curMode | tgtType << 2, coupons u32 LE) as read by an independent decoder; deserialize(serialize(s)) holds the same coupon set and behaves like s under one further update (same resulting coupon set)
#[kani::proof]
#[kani::unwind(12)]
#[kani::stub(alloc::fmt::format, stub_format)]
fn c11_hll_list_roundtrip_layout() {
    let lg_k: u8 = kani::any();
    kani::assume(lg_k >= 8 && lg_k <= 21);
    let t = any_type();
    let n: usize = kani::any();
    kani::assume(n <= 7);
    let c: [u32; 7] = kani::any();
    let mut s = HllSketch::new(lg_k, t);
    let mut i = 0;
    while i < 7 {
        if i < n {
            kani::assume(c[i] != 0);
            let mut j = 0;
            while j < i {
                kani::assume(c[j] != c[i]);
                j += 1;
            }
            s.update_with_coupon(c[i]);
        }
        i += 1;
    }
    let bytes = s.serialize();
    assert!(bytes.len() == 8 + 4 * n, "list image is not 8 + 4c bytes");
    assert!(bytes[0] == 2 && bytes[1] == 1 && bytes[2] == 7, "preInts / serVer / family");
    assert!(bytes[3] == lg_k, "lg_k field");
    assert!(bytes[4] == 3, "lg_arr field of a list");
    assert!((bytes[5] & 4 != 0) == (n == 0), "empty flag");
    assert!(bytes[5] & 8 != 0, "compact flag (the coupon array is written without gaps)");
    assert!(bytes[6] as usize == n, "coupon count field");
    assert!(bytes[7] & 3 == 0, "current mode = LIST");
    assert!((bytes[7] >> 2) & 3 == t as u8, "target type");
    let mut i = 0;
    while i < n {
        assert!(rd_u32(&bytes, 8 + 4 * i) == c[i], "coupon field");
        i += 1;
    }
    let r = HllSketch::deserialize(&bytes);
    let mut g = crate::verif_kani_common::expect_ok(r, "own image rejected");
    assert!(g.lg_config_k() == lg_k && g.target_type() == t);
    assert!(g == s, "deserialized list differs from the original");
    // behaves identically afterwards: one more coupon
    let x: u32 = kani::any();
    kani::assume(x != 0);
    let mut s2 = s.clone();
    s2.update_with_coupon(x);
    g.update_with_coupon(x);
    assert!(g == s2, "deserialized sketch diverges from the original under a further update");
    let again = g.serialize();
    let direct = s2.serialize();
    assert!(again.len() == direct.len());
    kani::cover!(n == 7);
    kani::cover!(n == 0);
    core::mem::forget((s, s2, g, bytes, again, direct));
}

use crate::hll::array6::verif_kani_hll_array6 as v6;
use crate::hll::array8::verif_kani_hll_array8 as v8;
use crate::hll::estimator::verif_kani_hll_estimator as ve;

fn rd_f64_bits(b: &[u8], o: usize) -> u64 {
    rd_u64(b, o)
}

fn any_estimator() -> crate::hll::estimator::HipEstimator {
    let hip: f64 = kani::any();
    let k0: f64 = kani::any();
    let k1: f64 = kani::any();
    kani::assume(hip.is_finite() && k0.is_finite() && k1.is_finite());
    let ooo: bool = kani::any();
    let mut e = ve::raw_estimator(hip, k0, k1, false);
    if ooo {
        e.set_out_of_order(true);
    }
    e
}

fn any_regs16() -> ([u8; 16], u32) {
    let regs: [u8; 16] = kani::any();
    let mut z = 0u32;
    let mut i = 0;
    while i < 16 {
        kani::assume(regs[i] <= 63);
        if regs[i] == 0 {
            z += 1;
        }
        i += 1;
    }
    (regs, z)
}

fn check_array_header(b: &[u8], e: &crate::hll::estimator::HipEstimator, zeros: u32, tgt: u8) {
    assert!(b[0] == 10 && b[1] == 1 && b[2] == 7 && b[3] == 4, "preInts / serVer / family / lgK");
    assert!((b[5] & 16 != 0) == e.is_out_of_order(), "out-of-order flag");
    assert!(b[5] & 4 == 0, "empty flag on an array image");
    assert!(b[7] == (2 | (tgt << 2)), "mode byte: HLL mode | target type << 2");
    assert!(rd_f64_bits(b, 8) == e.hip_accum().to_bits() && rd_f64_bits(b, 16) == e.kxq0().to_bits() && rd_f64_bits(b, 24) == e.kxq1().to_bits(), "estimator fields");
    assert!(rd_u32(b, 32) == zeros && rd_u32(b, 36) == 0, "numAtCurMin / auxCount");
}

//@ props: C11 C12 C13 C18
//@ tier: quick
//@ timeout: 1800
//@ functions: hll::array8::Array8::serialize
//@ functions: hll::array8::Array8::deserialize
//@ functions: hll::sketch::HllSketch::serialize
//@ functions: hll::sketch::HllSketch::deserialize
//@ bounds: lg_k = 4: Hll8 array with all 16 registers (0..=63) and the estimator state (HIP accumulator, kxq0, kxq1: any finite f64; out-of-order flag) symbolic
//@ desc: the Hll8 image is 40 + k bytes in the Java/C++ layout (preInts 10, serVer 1, family 7, lgK, flags with out-of-order bit 4, mode byte = HLL | type << 2, HIP accumulator, kxq0, kxq1 as f64 @8/@16/@24, numAtCurMin u32 @32, auxCount @36, registers @40) as read by an independent decoder; deserialize(serialize(s)) == s; the same bytes with the COMPACT flag set (the form Java/C++ emit by default) decode to the same sketch
#[kani::proof]
#[kani::unwind(60)]
#[kani::stub(alloc::fmt::format, stub_format)]
fn c11_hll_array8_roundtrip_layout() {
    let (regs, zeros) = any_regs16();
    let e = any_estimator();
    let s8 = HllSketch::from_mode(4, Mode::Array8(v8::raw_array8(4, &regs, e.clone())));
    let b8 = s8.serialize();
    assert!(b8.len() == 40 + 16, "Hll8 image is not 40 + k bytes");
    check_array_header(&b8, &e, zeros, 2);
    let mut i = 0;
    while i < 16 {
        assert!(b8[40 + i] == regs[i], "Hll8 register byte");
        i += 1;
    }
    let mut img = [0u8; 56];
    let mut i = 0;
    while i < 56 {
        img[i] = b8[i];
        i += 1;
    }
    let compact: bool = kani::any();
    if compact {
        img[5] |= 8;
    }
    let g8 = crate::verif_kani_common::expect_ok(HllSketch::deserialize(&img), "valid Hll8 image rejected");
    assert!(g8 == s8, "Hll8 image (plain or COMPACT flag) decoded to different registers / estimator");
    kani::cover!(compact && zeros == 3);
    kani::cover!(!compact && e.is_out_of_order());
    core::mem::forget((s8, g8, b8));
}

//@ props: C11 C12 C13 C18
//@ tier: quick
//@ timeout: 1800
//@ functions: hll::array6::Array6::serialize
//@ functions: hll::array6::Array6::deserialize
//@ functions: hll::sketch::HllSketch::deserialize
//@ bounds: lg_k = 4: Hll6 array with all 16 registers (0..=63) and the estimator state symbolic
//@ desc: the Hll6 image is 40 + 3k/4 + 1 bytes, registers packed LSB-first 6 bits each @40; header as for Hll8 with target type 1; round trip restores the sketch, also with the COMPACT flag set
#[kani::proof]
#[kani::unwind(60)]
#[kani::stub(alloc::fmt::format, stub_format)]
fn c11_hll_array6_roundtrip_layout() {
    let (regs, zeros) = any_regs16();
    let e = any_estimator();
    let s6 = HllSketch::from_mode(4, Mode::Array6(v6::array6_from_regs(4, &regs, e.clone())));
    let b6 = s6.serialize();
    assert!(b6.len() == 40 + 13, "Hll6 image is not 40 + 3k/4 + 1 bytes");
    check_array_header(&b6, &e, zeros, 1);
    let mut i = 0;
    while i < 16 {
        assert!(v6::spec_get6(&b6[40..], i) == regs[i], "Hll6 register not at its LSB-first 6-bit position");
        i += 1;
    }
    let mut img = [0u8; 53];
    let mut i = 0;
    while i < 53 {
        img[i] = b6[i];
        i += 1;
    }
    let compact: bool = kani::any();
    if compact {
        img[5] |= 8;
    }
    let g6 = crate::verif_kani_common::expect_ok(HllSketch::deserialize(&img), "valid Hll6 image rejected");
    assert!(g6 == s6, "Hll6 image (plain or COMPACT flag) decoded to different registers / estimator");
    kani::cover!(compact);
    kani::cover!(!compact && zeros == 2);
    core::mem::forget((s6, g6, b6));
}
