//@@ attach: hll/sketch.rs
//@@ needs: hll_estimator.rs hll_array8.rs hll_array6.rs
// HLL serialization: sub-parsers over symbolic bytes (C14), round trip + layout (C11/C12/C18),
// foreign variants (C13).
use super::*;
use crate::verif_kani_common::stub_format;

fn rd_u32(b: &[u8], o: usize) -> u32 {
    (b[o] as u32) | ((b[o + 1] as u32) << 8) | ((b[o + 2] as u32) << 16) | ((b[o + 3] as u32) << 24)
}
fn rd_u64(b: &[u8], o: usize) -> u64 {
    (rd_u32(b, o) as u64) | ((rd_u32(b, o + 4) as u64) << 32)
}

fn any_type() -> HllType {
    let t: u8 = kani::any();
    kani::assume(t < 3);
    match t {
        0 => HllType::Hll4,
        1 => HllType::Hll6,
        _ => HllType::Hll8,
    }
}

/// loop-free little-endian store
fn put_le(b: &mut [u8], o: usize, v: u64, n: usize) {
    b[o] = v as u8;
    if n >= 2 {
        b[o + 1] = (v >> 8) as u8;
    }
    if n >= 4 {
        b[o + 2] = (v >> 16) as u8;
        b[o + 3] = (v >> 24) as u8;
    }
    if n >= 8 {
        b[o + 4] = (v >> 32) as u8;
        b[o + 5] = (v >> 40) as u8;
        b[o + 6] = (v >> 48) as u8;
        b[o + 7] = (v >> 56) as u8;
    }
}

// ---------------------------------------------------------------------------------------------
// C14: every byte string. The mode byte (which sub-parser runs) and, for arrays, lg_k are literals per
// instance - buffers are <= 64 bytes so that CBMC's constant propagation over array cells applies and
// only that sub-parser is explored; every other byte and the length are symbolic.
// ---------------------------------------------------------------------------------------------

/// lengths at which the truncated-image instances cut the buffer (concrete: a slice of symbolic length
/// defeats CBMC's constant propagation over the literal mode bytes and every sub-parser is explored)
const SHORT_LENS: [usize; 6] = [0, 1, 7, 8, 9, 12];

fn hll_coupon_any_bytes_case(mode_byte: u8, update_after: bool, short: bool) {
    if short {
        let mut i = 0;
        while i < SHORT_LENS.len() {
            hll_coupon_any_bytes_at(mode_byte, false, SHORT_LENS[i]);
            i += 1;
        }
        hll_coupon_any_bytes_at(mode_byte, false, 39);
    } else {
        hll_coupon_any_bytes_at(mode_byte, update_after, 40);
    }
}

fn hll_coupon_any_bytes_at(mode_byte: u8, update_after: bool, len: usize) {
    let mut img: [u8; 40] = kani::any();
    img[7] = mode_byte;
    if !update_after {
        // the table-size field as a literal (the standard 8-slot list / 32-slot set): the table allocation is
        // then concrete. Every lgArr value (a symbolic-size allocation, bounded by the parser's own check) is
        // the *_then_update instances' business (thorough tier).
        img[4] = if mode_byte & 3 == 1 { 5 } else { 3 };
    }
    let r = HllSketch::deserialize(&img[..len]);
    kani::cover!(r.is_ok() || len != 40 || mode_byte & 3 == 3);
    kani::cover!(r.is_err());
    if let Ok(mut s) = r {
        let _ = s.is_empty();
        let _ = s.lg_config_k();
        if update_after {
            let c: u32 = kani::any();
            kani::assume(c != 0 && (c >> 26) >= 1);
            if s.lg_config_k >= 8 {
                // (promotion to an array at lg_k < 8 is covered by the C02 harnesses)
                s.update_with_coupon(c);
            }
        }
        core::mem::forget(s);
    } else {
        core::mem::forget(r);
    }
}

macro_rules! hll_coupon_any_bytes {
    ($name:ident, $mode:expr, $upd:expr, $short:expr) => {
        #[kani::proof]
        #[kani::unwind(12)]
        #[kani::stub(alloc::fmt::format, stub_format)]
        #[kani::stub(alloc::vec::Vec::with_capacity, crate::verif_kani_common::stub_with_capacity)]
        fn $name() {
            hll_coupon_any_bytes_case($mode, $upd, $short);
        }
    };
}

//@ family: hll_coupon_any_bytes
//@ props: C14
//@ tier: thorough
//@ timeout: 2400
//@ functions: hll::sketch::HllSketch::deserialize
//@ functions: hll::list::List::deserialize
//@ functions: hll::hash_set::HashSet::deserialize
//@ unwind: 12
//@ stubs: alloc::fmt::format -> empty string
//@ bounds: every byte string of exactly 40 bytes (or, in the *_truncated instances, of each of the lengths 0, 1, 7, 8, 9, 12, 39) with the mode byte of the instance (LIST or SET x target type Hll4 / Hll8; 3 = invalid mode); lgArr the literal 3 (list) / 5 (set) except in the *_then_update instances, where it is symbolic too; all other header bytes, counts and coupons symbolic; the *_then_update instances also feed one symbolic coupon to an accepted sketch. Lengths are concrete because a slice of symbolic length defeats constant propagation (no verdict in 10 min)
//@ desc: HllSketch::deserialize returns Ok or Err without panic (no shift overflow, no capacity overflow, no unreachable!, no out-of-bounds) for every list / set image; an Ok value can be queried (and updated) without panicking
hll_coupon_any_bytes!(c14_hll_list_any_bytes, 0, false, false); //@ tier: quick
hll_coupon_any_bytes!(c14_hll_set_any_bytes, 1 | (2 << 2), false, false);
hll_coupon_any_bytes!(c14_hll_invalid_mode_any_bytes, 3, false, false); //@ tier: quick
hll_coupon_any_bytes!(c14_hll_list_any_bytes_truncated, 0, false, true);
hll_coupon_any_bytes!(c14_hll_set_any_bytes_truncated, 1, false, true);
hll_coupon_any_bytes!(c14_hll_list_any_bytes_then_update, 0 | (1 << 2), true, false);
hll_coupon_any_bytes!(c14_hll_set_any_bytes_then_update, 1, true, false);
//@ endfamily: x

fn hll_array_any_bytes_case(tgt: u8, short: bool) {
    if short {
        let mut i = 0;
        while i < SHORT_LENS.len() {
            hll_array_any_bytes_at(tgt, SHORT_LENS[i]);
            i += 1;
        }
        hll_array_any_bytes_at(tgt, 40);
        hll_array_any_bytes_at(tgt, 47);
        hll_array_any_bytes_at(tgt, 52);
    } else {
        hll_array_any_bytes_at(tgt, 64);
    }
}

fn hll_array_any_bytes_at(tgt: u8, len: usize) {
    let mut img: [u8; 64] = kani::any();
    img[7] = 2 | (tgt << 2);
    img[3] = 4;
    let r = HllSketch::deserialize(&img[..len]);
    kani::cover!(r.is_ok() || len != 64 || tgt == 3);
    kani::cover!(r.is_err());
    if let Ok(s) = r {
        let _ = s.is_empty();
        core::mem::forget(s);
    } else {
        core::mem::forget(r);
    }
}

macro_rules! hll_array_any_bytes {
    ($name:ident, $tgt:expr, $short:expr) => {
        #[kani::proof]
        #[kani::unwind(18)]
        #[kani::stub(alloc::fmt::format, stub_format)]
        #[kani::stub(alloc::vec::Vec::with_capacity, crate::verif_kani_common::stub_with_capacity)]
        fn $name() {
            hll_array_any_bytes_case($tgt, $short);
        }
    };
}

//@ family: hll_array_any_bytes
//@ props: C14
//@ tier: thorough
//@ timeout: 2400
//@ functions: hll::sketch::HllSketch::deserialize
//@ functions: hll::array4::Array4::deserialize
//@ functions: hll::array6::Array6::deserialize
//@ functions: hll::array8::Array8::deserialize
//@ functions: hll::aux_map::AuxMap::insert
//@ unwind: 18
//@ stubs: alloc::fmt::format -> empty string
//@ bounds: every byte string of exactly 64 bytes (in the *_truncated instances: of each of the lengths 0, 1, 7, 8, 9, 12, 40, 47, 52) in HLL (array) mode with lg_k = 4 (16 registers) and the target type of the instance (Hll4: up to 4 aux entries or a 4-int updatable aux table; Hll6; Hll8; 3 = invalid type); all other header bytes (flags, cur_min, lgArr), the estimator fields, counts and payload symbolic
//@ desc: HllSketch::deserialize returns Ok or Err without panic for every array-mode image at lg_k = 4
hll_array_any_bytes!(c14_hll_array4_any_bytes, 0, false);
hll_array_any_bytes!(c14_hll_array6_any_bytes, 1, false); //@ tier: quick
hll_array_any_bytes!(c14_hll_array8_any_bytes, 2, false); //@ tier: quick
hll_array_any_bytes!(c14_hll_array_invalid_type_any_bytes, 3, false);
hll_array_any_bytes!(c14_hll_array4_any_bytes_truncated, 0, true);
hll_array_any_bytes!(c14_hll_array8_any_bytes_truncated, 2, true);
//@ endfamily: x

//@ props: C14
//@ tier: quick
//@ timeout: 1200
//@ functions: hll::sketch::HllSketch::deserialize
//@ functions: hll::array4::Array4::deserialize
//@ functions: hll::aux_map::AuxMap::insert
//@ stubs: alloc::fmt::format -> empty string; Vec::with_capacity -> empty vector
//@ bounds: every 52-byte Hll4 image at lg_k 4 in the compact form whose aux count (@36) is the literal 1 and whose flags byte is the literal COMPACT: cur_min, the estimator fields, numAtCurMin, all 8 nibble bytes and the aux pair (slot, value) symbolic
//@ desc: Array4::deserialize returns Ok or Err without panic for every such image - in particular for an aux pair whose value is below cur_min, below cur_min + 15, above 63, or whose register does not hold the aux token; an accepted image has exactly one exception and consistent counts
#[kani::proof]
#[kani::unwind(18)]
#[kani::stub(alloc::fmt::format, stub_format)]
#[kani::stub(alloc::vec::Vec::with_capacity, crate::verif_kani_common::stub_with_capacity)]
fn c14_hll_array4_one_aux_entry_any_bytes() {
    let mut img: [u8; 52] = kani::any();
    img[3] = 4;
    img[5] = 8;
    img[7] = 2;
    img[36] = 1;
    img[37] = 0;
    img[38] = 0;
    img[39] = 0;
    let r = HllSketch::deserialize(&img);
    kani::cover!(r.is_ok());
    kani::cover!(r.is_err());
    kani::cover!(img[6] > 0 && (img[51] >> 2) < img[6]); // aux value below cur_min
    core::mem::forget(r);
}

// ---------------------------------------------------------------------------------------------
// C11 / C12 / C13 / C18: round trip against a SPEC ENCODER. The image is rebuilt from the documented
// layout in an exact-size array (<= 64 bytes, structural fields as literals), the real serialize() must
// equal it byte for byte, and the decoder is run on the spec image.
// ---------------------------------------------------------------------------------------------

macro_rules! same_words {
    ($bytes:expr, $img:expr, $len:expr; $($i:expr),*) => { $(
        if 8 * $i + 8 <= $len {
            assert!(rd_u64(&$bytes, 8 * $i) == rd_u64(&$img, 8 * $i), "serialized bytes differ from the documented layout");
        } else if 8 * $i + 4 <= $len {
            assert!(rd_u32(&$bytes, 8 * $i) == rd_u32(&$img, 8 * $i), "serialized bytes differ from the documented layout");
        }
    )* };
}


/// two lists hold the same coupons in the same positions (the crate's own `==` on containers sorts copies of
/// both coupon arrays - std sort does not get through symbolic execution)
fn same_list(la: &List, lb: &List) {
    let (ca, cb) = (la.container(), lb.container());
    assert!(ca.len() == cb.len(), "coupon count differs");
    assert!(ca.coupons.len() == 8 && cb.coupons.len() == 8, "a list holds a full-capacity array of 8");
    let mut i = 0;
    while i < 8 {
        assert!(ca.coupons[i] == cb.coupons[i], "coupon differs");
        i += 1;
    }
}

fn same_estimator(a: &crate::hll::estimator::HipEstimator, b: &crate::hll::estimator::HipEstimator) {
    assert!(a.hip_accum().to_bits() == b.hip_accum().to_bits() && a.kxq0().to_bits() == b.kxq0().to_bits() && a.kxq1().to_bits() == b.kxq1().to_bits(), "estimator values changed");
    assert!(a.is_out_of_order() == b.is_out_of_order(), "out-of-order flag changed");
}

/// List::serialize / List::deserialize at unit level (the dispatcher HllSketch::{serialize, deserialize} is
/// c11_hll_deserialize_dispatch: a `match` on the mode enum is not constant-folded by symbolic execution, so
/// going through the dispatcher explores the serializers of all five modes - measured: > 14 GB)
fn list_roundtrip_case<const N: usize, const LEN: usize>(t: HllType, tgt: u8) {
    let lg_k: u8 = kani::any();
    kani::assume(lg_k >= 4 && lg_k <= 21);
    let c: [u32; N] = kani::any();
    let mut s = List::default();
    let mut i = 0;
    while i < N {
        kani::assume(c[i] != 0);
        let mut j = 0;
        while j < i {
            kani::assume(c[j] != c[i]);
            j += 1;
        }
        s.update(c[i]);
        i += 1;
    }
    // spec encoder: preInts 2, serVer 1, family 7, lgK, lgArr 3, flags (empty bit 2, compact bit 3), count, mode
    let mut img = [0u8; LEN];
    assert!(LEN == 8 + 4 * N);
    img[0] = 2;
    img[1] = 1;
    img[2] = 7;
    img[3] = lg_k;
    img[4] = 3;
    img[5] = 8 | (if N == 0 { 4 } else { 0 });
    img[6] = N as u8;
    img[7] = tgt << 2;
    let mut i = 0;
    while i < N {
        put_le(&mut img, 8 + 4 * i, c[i] as u64, 4);
        i += 1;
    }
    let bytes = s.serialize(lg_k, t);
    assert!(bytes.len() == LEN, "list image is not 8 + 4c bytes");
    same_words!(bytes, img, LEN; 0, 1, 2, 3, 4);
    let cursor = crate::codec::SketchSlice::new(&img[8..]);
    let r = List::deserialize(cursor, 3, N, N == 0, true);
    let mut g = crate::verif_kani_common::expect_ok(r, "own image rejected");
    same_list(&g, &s);
    // behaves identically afterwards: one more coupon (stays a list while N < 7)
    if N < 7 {
        let x: u32 = kani::any();
        kani::assume(x != 0);
        let mut s2 = s.clone();
        s2.update(x);
        g.update(x);
        same_list(&g, &s2);
        core::mem::forget(s2);
    }
    kani::cover!(lg_k == 21);
    core::mem::forget((s, g, bytes));
}

macro_rules! hll_list_roundtrip {
    ($name:ident, $n:expr, $len:expr, $t:expr, $tgt:expr) => {
        #[kani::proof]
        #[kani::unwind(10)]
        #[kani::stub(alloc::fmt::format, stub_format)]
        fn $name() {
            list_roundtrip_case::<$n, $len>($t, $tgt);
        }
    };
}

//@ family: hll_list_roundtrip
//@ props: C11 C12 C18
//@ tier: thorough
//@ timeout: 1800
//@ functions: hll::list::List::serialize
//@ functions: hll::list::List::deserialize
//@ functions: hll::list::List::update
//@ unwind: 10
//@ stubs: alloc::fmt::format -> empty string
//@ bounds: coupon lists with the instance's number of distinct symbolic coupons (0, 1, 3, 7) and target type, every lg_k in 4..=21 (symbolic)
//@ desc: serialize() equals, byte for byte, the image a spec encoder written from the Java/C++ format documentation produces - 8 + 4c bytes: preInts 2, serVer 1, family 7, lgK @3, lgArr 3 @4, flags @5 (empty bit 2, compact bit 3), count @6, mode byte @7 = curMode | tgtType << 2, coupons u32 LE; deserializing its payload gives an identical list that behaves like the original under one further update
hll_list_roundtrip!(c11_hll_list_roundtrip_0, 0, 8, HllType::Hll4, 0); //@ tier: quick
hll_list_roundtrip!(c11_hll_list_roundtrip_1, 1, 12, HllType::Hll8, 2); //@ tier: quick
hll_list_roundtrip!(c11_hll_list_roundtrip_2, 2, 16, HllType::Hll6, 1); //@ tier: quick
hll_list_roundtrip!(c11_hll_list_roundtrip_3, 3, 20, HllType::Hll6, 1);
hll_list_roundtrip!(c11_hll_list_roundtrip_7, 7, 36, HllType::Hll8, 2);
//@ endfamily: x

use crate::hll::array6::verif_kani_hll_array6 as v6;
use crate::hll::array8::verif_kani_hll_array8 as v8;
use crate::hll::estimator::verif_kani_hll_estimator as ve;

fn any_estimator(ooo: bool) -> crate::hll::estimator::HipEstimator {
    let hip: f64 = kani::any();
    let k0: f64 = kani::any();
    let k1: f64 = kani::any();
    kani::assume(hip.is_finite() && k0.is_finite() && k1.is_finite());
    let mut e = ve::raw_estimator(hip, k0, k1, false);
    if ooo {
        e.set_out_of_order(true);
    }
    e
}

fn any_regs16() -> ([u8; 16], u32) {
    let regs: [u8; 16] = kani::any();
    let mut z = 0u32;
    let mut i = 0;
    while i < 16 {
        kani::assume(regs[i] <= 63);
        if regs[i] == 0 {
            z += 1;
        }
        i += 1;
    }
    (regs, z)
}

/// header of an array-mode image: preInts 10, serVer 1, family 7, lgK, lgArr 0, flags (out-of-order bit 4),
/// curMin 0, mode byte = HLL | type << 2, HIP accumulator, kxq0, kxq1 as f64 @8/@16/@24, numAtCurMin u32
/// @32, auxCount @36
fn spec_array_header(img: &mut [u8], e: &crate::hll::estimator::HipEstimator, ooo: bool, zeros: u32, tgt: u8) {
    img[0] = 10;
    img[1] = 1;
    img[2] = 7;
    img[3] = 4;
    img[4] = 0;
    img[5] = if ooo { 16 } else { 0 };
    img[6] = 0;
    img[7] = 2 | (tgt << 2);
    put_le(img, 8, e.hip_accum().to_bits(), 8);
    put_le(img, 16, e.kxq0().to_bits(), 8);
    put_le(img, 24, e.kxq1().to_bits(), 8);
    put_le(img, 32, zeros as u64, 4);
    put_le(img, 36, 0, 4);
}

fn array8_roundtrip_case(ooo: bool, compact: bool) {
    let (regs, zeros) = any_regs16();
    let e = any_estimator(ooo);
    let s8 = v8::raw_array8(4, &regs, e.clone());
    let mut img = [0u8; 56];
    spec_array_header(&mut img, &e, ooo, zeros, 2);
    let mut i = 0;
    while i < 16 {
        img[40 + i] = regs[i];
        i += 1;
    }
    let b8 = s8.serialize(4);
    assert!(b8.len() == 40 + 16, "Hll8 image is not 40 + k bytes");
    same_words!(b8, img, 56; 0, 1, 2, 3, 4, 5, 6);
    if compact {
        img[5] |= 8; // the form Java / C++ emit by default (C13)
    }
    let cursor = crate::codec::SketchSlice::new(&img[8..]);
    let g8 = crate::verif_kani_common::expect_ok(Array8::deserialize(cursor, 4, compact, ooo), "valid Hll8 image rejected");
    let mut i = 0;
    while i < 16 {
        assert!(g8.get(i as u32) == regs[i], "Hll8 image (plain or COMPACT flag) decoded to different registers");
        i += 1;
    }
    same_estimator(v8::estimator_of(&g8), &e);
    assert!(v8::num_zeros_of(&g8) == zeros, "zero-register count changed");
    kani::cover!(zeros == 3);
    core::mem::forget((s8, g8, b8));
}

macro_rules! hll_array8_roundtrip {
    ($name:ident, $ooo:expr, $compact:expr) => {
        #[kani::proof]
        #[kani::unwind(18)]
        #[kani::stub(alloc::fmt::format, stub_format)]
        fn $name() {
            array8_roundtrip_case($ooo, $compact);
        }
    };
}

//@ family: hll_array8_roundtrip
//@ props: C11 C12 C13 C18
//@ tier: thorough
//@ timeout: 1800
//@ functions: hll::array8::Array8::serialize
//@ functions: hll::array8::Array8::deserialize
//@ unwind: 18
//@ stubs: alloc::fmt::format -> empty string
//@ bounds: lg_k = 4: Hll8 array with all 16 registers (0..=63) and the estimator values (HIP accumulator, kxq0, kxq1: any finite f64) symbolic; out-of-order flag and the COMPACT flag of the decoded image per instance
//@ desc: serialize() equals, byte for byte, the spec image of 40 + k bytes (preInts 10, serVer 1, family 7, lgK, flags with out-of-order bit 4, mode byte = HLL | type << 2, estimator f64s @8/@16/@24, numAtCurMin @32, auxCount @36, registers @40); deserializing it - plain or with the COMPACT flag set, the form Java/C++ emit by default - gives back an equal sketch
hll_array8_roundtrip!(c11_hll_array8_roundtrip_plain, false, false); //@ tier: quick
hll_array8_roundtrip!(c11_hll_array8_roundtrip_ooo_compact, true, true); //@ tier: quick
hll_array8_roundtrip!(c11_hll_array8_roundtrip_compact, false, true);
//@ endfamily: x

fn array6_roundtrip_case(ooo: bool, compact: bool) {
    let (regs, zeros) = any_regs16();
    let e = any_estimator(ooo);
    let s6 = v6::array6_from_regs(4, &regs, e.clone());
    let mut img = [0u8; 56];
    spec_array_header(&mut img, &e, ooo, zeros, 1);
    // registers packed LSB-first, 6 bits each, from byte 40; the image is 40 + 3k/4 + 1 = 53 bytes
    let mut i = 0;
    while i < 16 {
        let bit = 6 * i;
        let v = (regs[i] as u16) << (bit % 8);
        img[40 + bit / 8] |= v as u8;
        img[40 + bit / 8 + 1] |= (v >> 8) as u8;
        i += 1;
    }
    let b6 = s6.serialize(4);
    assert!(b6.len() == 40 + 13, "Hll6 image is not 40 + 3k/4 + 1 bytes");
    same_words!(b6, img, 53; 0, 1, 2, 3, 4, 5, 6);
    assert!(b6[52] == img[52]);
    if compact {
        img[5] |= 8;
    }
    let cursor = crate::codec::SketchSlice::new(&img[8..53]);
    let g6 = crate::verif_kani_common::expect_ok(Array6::deserialize(cursor, 4, compact, ooo), "valid Hll6 image rejected");
    let mut i = 0;
    while i < 16 {
        assert!(g6.get(i as u32) == regs[i], "Hll6 image (plain or COMPACT flag) decoded to different registers");
        i += 1;
    }
    same_estimator(v6::estimator_of(&g6), &e);
    assert!(v6::num_zeros_of(&g6) == zeros, "zero-register count changed");
    kani::cover!(zeros == 2);
    core::mem::forget((s6, g6, b6));
}

macro_rules! hll_array6_roundtrip {
    ($name:ident, $ooo:expr, $compact:expr) => {
        #[kani::proof]
        #[kani::unwind(18)]
        #[kani::stub(alloc::fmt::format, stub_format)]
        fn $name() {
            array6_roundtrip_case($ooo, $compact);
        }
    };
}

//@ family: hll_array6_roundtrip
//@ props: C11 C12 C13 C18
//@ tier: thorough
//@ timeout: 1800
//@ functions: hll::array6::Array6::serialize
//@ functions: hll::array6::Array6::deserialize
//@ unwind: 18
//@ stubs: alloc::fmt::format -> empty string
//@ bounds: lg_k = 4: Hll6 array with all 16 registers (0..=63) and the estimator values symbolic; out-of-order and COMPACT flag per instance
//@ desc: serialize() equals, byte for byte, the spec image of 40 + 3k/4 + 1 bytes, registers packed LSB-first 6 bits each @40, header as for Hll8 with target type 1; round trip restores the sketch, also with the COMPACT flag set
hll_array6_roundtrip!(c11_hll_array6_roundtrip_plain, false, false); //@ tier: quick
hll_array6_roundtrip!(c11_hll_array6_roundtrip_ooo_compact, true, true); //@ tier: quick
//@ endfamily: x

// ---------------------------------------------------------------------------------------------
// The dispatcher HllSketch::deserialize: header fields are routed to the right sub-parser with the right
// arguments (sub-parsers replaced by recorders; they are covered at unit level above and in hll_array4.rs)
// ---------------------------------------------------------------------------------------------

static mut CALLED: u8 = 0; // 1 list, 2 set, 3 array4, 4 array6, 5 array8
static mut ARGS: (usize, usize, u8, u8, bool, bool, bool) = (0, 0, 0, 0, false, false, false); // lg_arr, count, cur_min, lg_k, empty, compact, ooo

fn rec_list(_c: crate::codec::SketchSlice, lg_arr: usize, coupon_count: usize, empty: bool, compact: bool) -> Result<List, Error> {
    unsafe {
        CALLED = 1;
        ARGS = (lg_arr, coupon_count, 0, 0, empty, compact, false);
    }
    Ok(List::default())
}
fn rec_set(_c: crate::codec::SketchSlice, lg_arr: usize, compact: bool) -> Result<HashSet, Error> {
    unsafe {
        CALLED = 2;
        ARGS = (lg_arr, 0, 0, 0, false, compact, false);
    }
    Ok(HashSet::default())
}
fn rec_array4(_c: crate::codec::SketchSlice, cur_min: u8, lg_k: u8, lg_aux_arr: u8, compact: bool, ooo: bool) -> Result<Array4, Error> {
    unsafe {
        CALLED = 3;
        ARGS = (lg_aux_arr as usize, 0, cur_min, lg_k, false, compact, ooo);
    }
    Ok(Array4::new(4))
}
fn rec_array6(_c: crate::codec::SketchSlice, lg_k: u8, compact: bool, ooo: bool) -> Result<Array6, Error> {
    unsafe {
        CALLED = 4;
        ARGS = (0, 0, 0, lg_k, false, compact, ooo);
    }
    Ok(Array6::new(4))
}
fn rec_array8(_c: crate::codec::SketchSlice, lg_k: u8, compact: bool, ooo: bool) -> Result<Array8, Error> {
    unsafe {
        CALLED = 5;
        ARGS = (0, 0, 0, lg_k, false, compact, ooo);
    }
    Ok(Array8::new(4))
}

//@ props: C11 C12 C13 C14
//@ tier: quick
//@ timeout: 900
//@ functions: hll::sketch::HllSketch::deserialize
//@ functions: hll::serialization::extract_cur_mode
//@ functions: hll::serialization::extract_tgt_hll_type
//@ stubs: List / HashSet / Array4 / Array6 / Array8 ::deserialize -> recorders of their arguments (the sub-parsers are covered at unit level)
//@ bounds: every 8-byte header (all bytes symbolic) followed by any payload length 0..=8
//@ desc: HllSketch::deserialize routes the image by the documented header: family 7, serVer 1, lg_k in 4..=21, mode byte low 2 bits = LIST/SET/HLL with preInts 2/3/10, target type bits 2-3; flags bit 2 empty, bit 3 compact, bit 4 out-of-order; byte 4 lgArr, byte 6 = coupon count (list) / cur_min (Hll4); a set only with lg_k >= 8 and lgArr <= lg_k - 3; anything else is an error, never a panic
#[kani::proof]
#[kani::unwind(4)]
#[kani::stub(alloc::fmt::format, stub_format)]
#[kani::stub(List::deserialize, rec_list)]
#[kani::stub(HashSet::deserialize, rec_set)]
#[kani::stub(Array4::deserialize, rec_array4)]
#[kani::stub(Array6::deserialize, rec_array6)]
#[kani::stub(Array8::deserialize, rec_array8)]
fn c11_hll_deserialize_dispatch() {
    let img: [u8; 16] = kani::any();
    let len: usize = kani::any();
    kani::assume(len >= 8 && len <= 16);
    unsafe {
        CALLED = 0;
    }
    let r = HllSketch::deserialize(&img[..len]);
    let (pre, ser, fam, lg_k, lg_arr, flags, state, mode) = (img[0], img[1], img[2], img[3], img[4], img[5], img[6], img[7]);
    let cur = mode & 3;
    let tgt = (mode >> 2) & 3;
    let header_ok = fam == 7 && ser == 1 && lg_k >= 4 && lg_k <= 21 && tgt <= 2;
    let want: u8 = if !header_ok {
        0
    } else if cur == 0 && pre == 2 {
        1
    } else if cur == 1 && pre == 3 && lg_k >= 8 && lg_arr <= lg_k - 3 {
        2
    } else if cur == 2 && pre == 10 {
        3 + tgt
    } else {
        0
    };
    let called = unsafe { CALLED };
    assert!(called == want, "image routed to the wrong sub-parser (or accepted / rejected against the documented header rules)");
    assert!(r.is_ok() == (want != 0));
    let a = unsafe { ARGS };
    let (empty, compact, ooo) = (flags & 4 != 0, flags & 8 != 0, flags & 16 != 0);
    if want == 1 {
        assert!(a.0 == lg_arr as usize && a.1 == state as usize && a.4 == empty && a.5 == compact, "list arguments");
    } else if want == 2 {
        assert!(a.0 == lg_arr as usize && a.5 == compact, "set arguments");
    } else if want == 3 {
        assert!(a.0 == lg_arr as usize && a.2 == state && a.3 == lg_k && a.5 == compact && a.6 == ooo, "Hll4 arguments");
    } else if want >= 4 {
        assert!(a.3 == lg_k && a.5 == compact && a.6 == ooo, "Hll6 / Hll8 arguments");
    }
    if let Ok(g) = &r {
        assert!(g.lg_config_k() == lg_k);
        assert!(g.target_type() as u8 == tgt || want >= 3, "target type of a coupon-mode sketch");
    }
    kani::cover!(want == 1);
    kani::cover!(want == 2);
    kani::cover!(want == 3);
    kani::cover!(want == 5);
    kani::cover!(want == 0 && header_ok);
    core::mem::forget(r);
}

