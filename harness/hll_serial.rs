//@@ attach: hll/sketch.rs
//@@ needs: hll_estimator.rs hll_array8.rs hll_array6.rs
// HLL serialization: sub-parsers over symbolic bytes (C14), round trip + layout (C11/C12/C18),
// foreign variants (C13).
use super::*;
use crate::verif_kani_common::stub_format;

fn rd_u32(b: &[u8], o: usize) -> u32 {
    (b[o] as u32) | ((b[o + 1] as u32) << 8) | ((b[o + 2] as u32) << 16) | ((b[o + 3] as u32) << 24)
}
fn rd_u64(b: &[u8], o: usize) -> u64 {
    (rd_u32(b, o) as u64) | ((rd_u32(b, o + 4) as u64) << 32)
}

fn any_type() -> HllType {
    let t: u8 = kani::any();
    kani::assume(t < 3);
    match t {
        0 => HllType::Hll4,
        1 => HllType::Hll6,
        _ => HllType::Hll8,
    }
}

//@ props: C14
//@ tier: quick
//@ timeout: 1800
//@ functions: hll::sketch::HllSketch::deserialize
//@ functions: hll::list::List::deserialize
//@ functions: hll::hash_set::HashSet::deserialize
//@ bounds: every byte string of length 0..=40 whose mode byte selects LIST or SET (array modes: c14_hll_array_any_bytes); all header bytes symbolic
//@ desc: HllSketch::deserialize returns Ok or Err without panic (no shift overflow, no capacity overflow, no unreachable!, no out-of-bounds) for every list/set image; an Ok value can be queried, updated with any coupon and re-serialized without panicking
#[kani::proof]
#[kani::unwind(12)]
#[kani::stub(alloc::fmt::format, stub_format)]
fn c14_hll_coupon_modes_any_bytes() {
    let img: [u8; 40] = kani::any();
    let len: usize = kani::any();
    kani::assume(len <= 40);
    kani::assume(img[7] & 3 <= 1);
    let r = HllSketch::deserialize(&img[..len]);
    kani::cover!(r.is_ok());
    kani::cover!(r.is_err());
    if let Ok(mut s) = r {
        kani::cover!(matches!(s.mode, Mode::Set { .. }));
        let _ = s.is_empty();
        let _ = s.lg_config_k();
        let c: u32 = kani::any();
        kani::assume(c != 0 && (c >> 26) >= 1);
        if s.lg_config_k >= 8 {
            // (promotion to an array at lg_k < 8 is covered by the C02 harnesses)
            s.update_with_coupon(c);
        }
        let out = s.serialize();
        core::mem::forget(out);
        core::mem::forget(s);
    } else {
        core::mem::forget(r);
    }
}

//@ props: C14
//@ tier: quick
//@ timeout: 1800
//@ functions: hll::sketch::HllSketch::deserialize
//@ functions: hll::array4::Array4::deserialize
//@ functions: hll::array6::Array6::deserialize
//@ functions: hll::array8::Array8::deserialize
//@ functions: hll::aux_map::AuxMap::insert
//@ bounds: every byte string of length 0..=72 in HLL (array) mode with lg_k = 4 (16 registers); all other header bytes, the estimator fields, counts and payload symbolic
//@ desc: HllSketch::deserialize returns Ok or Err without panic for every array-mode image at lg_k = 4; an Ok value can be queried (registers) and re-serialized without panicking
#[kani::proof]
#[kani::unwind(20)]
#[kani::stub(alloc::fmt::format, stub_format)]
fn c14_hll_array_any_bytes() {
    let img: [u8; 72] = kani::any();
    let len: usize = kani::any();
    kani::assume(len <= 72);
    kani::assume(img[7] & 3 == 2 && img[3] == 4);
    let r = HllSketch::deserialize(&img[..len]);
    kani::cover!(r.is_ok());
    kani::cover!(r.is_err());
    if let Ok(s) = r {
        kani::cover!(matches!(s.mode, Mode::Array4(_)));
        kani::cover!(matches!(s.mode, Mode::Array6(_)));
        let _ = s.is_empty();
        let out = s.serialize();
        core::mem::forget(out);
        core::mem::forget(s);
    } else {
        core::mem::forget(r);
    }
}

//@ props: C11 C12 C18
//@ tier: quick
//@ timeout: 1800
//@ functions: hll::list::List::serialize
//@ functions: hll::list::List::deserialize
//@ functions: hll::sketch::HllSketch::serialize
//@ functions: hll::sketch::HllSketch::deserialize
//@ bounds: list-mode sketches with 0..=7 distinct symbolic coupons, every lg_k in 4..=21 and target type
//@ desc: the list image is 8 + 4c bytes in the Java/C++ layout (preInts 2, serVer 1, family 7, lgK @3, lgArr @4, flags @5 (empty bit 2, compact bit 3), count @6, mode byte @7 = curMode | tgtType << 2, coupons u32 LE) as read by an independent decoder; deserialize(serialize(s)) holds the same coupon set and behaves like s under one further update (same resulting coupon set)
#[kani::proof]
#[kani::unwind(12)]
#[kani::stub(alloc::fmt::format, stub_format)]
fn c11_hll_list_roundtrip_layout() {
    let lg_k: u8 = kani::any();
    kani::assume(lg_k >= 8 && lg_k <= 21);
    let t = any_type();
    let n: usize = kani::any();
    kani::assume(n <= 7);
    let c: [u32; 7] = kani::any();
    let mut s = HllSketch::new(lg_k, t);
    let mut i = 0;
    while i < 7 {
        if i < n {
            kani::assume(c[i] != 0);
            let mut j = 0;
            while j < i {
                kani::assume(c[j] != c[i]);
                j += 1;
            }
            s.update_with_coupon(c[i]);
        }
        i += 1;
    }
    let bytes = s.serialize();
    assert!(bytes.len() == 8 + 4 * n, "list image is not 8 + 4c bytes");
    assert!(bytes[0] == 2 && bytes[1] == 1 && bytes[2] == 7, "preInts / serVer / family");
    assert!(bytes[3] == lg_k, "lg_k field");
    assert!(bytes[4] == 3, "lg_arr field of a list");
    assert!((bytes[5] & 4 != 0) == (n == 0), "empty flag");
    assert!(bytes[5] & 8 != 0, "compact flag (the coupon array is written without gaps)");
    assert!(bytes[6] as usize == n, "coupon count field");
    assert!(bytes[7] & 3 == 0, "current mode = LIST");
    assert!((bytes[7] >> 2) & 3 == t as u8, "target type");
    let mut i = 0;
    while i < n {
        assert!(rd_u32(&bytes, 8 + 4 * i) == c[i], "coupon field");
        i += 1;
    }
    let r = HllSketch::deserialize(&bytes);
    assert!(r.is_ok(), "own image rejected");
    let mut g = r.unwrap();
    assert!(g.lg_config_k() == lg_k && g.target_type() == t);
    assert!(g == s, "deserialized list differs from the original");
    // behaves identically afterwards: one more coupon
    let x: u32 = kani::any();
    kani::assume(x != 0);
    let mut s2 = s.clone();
    s2.update_with_coupon(x);
    g.update_with_coupon(x);
    assert!(g == s2, "deserialized sketch diverges from the original under a further update");
    let again = g.serialize();
    let direct = s2.serialize();
    assert!(again.len() == direct.len());
    kani::cover!(n == 7);
    kani::cover!(n == 0);
    core::mem::forget((s, s2, g, bytes, again, direct));
}
