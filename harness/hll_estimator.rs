//@@ attach: hll/estimator.rs
// HipEstimator: recorder stub used by the register-model harnesses, and the deterministic clauses of
// C01 (ordering and nesting of the bounds) for HLL arrays.
#![allow(static_mut_refs)]
use super::*;

pub static mut REC_N: usize = 0;
pub static mut REC_OLD: [u8; 8] = [0; 8];
pub static mut REC_NEW: [u8; 8] = [0; 8];
pub static mut REC_LGK: [u8; 8] = [0; 8];

/// stand-in for HipEstimator::update in register-model harnesses: records the call, touches no float
pub fn rec_update(_e: &mut HipEstimator, lg_config_k: u8, old_value: u8, new_value: u8) {
    unsafe {
        if REC_N < 8 {
            REC_OLD[REC_N] = old_value;
            REC_NEW[REC_N] = new_value;
            REC_LGK[REC_N] = lg_config_k;
        }
        REC_N += 1;
    }
}

pub fn rec_reset() {
    unsafe {
        REC_N = 0;
    }
}
pub fn rec_count() -> usize {
    unsafe { REC_N }
}
pub fn rec_get(i: usize) -> (u8, u8, u8) {
    unsafe { (REC_LGK[i], REC_OLD[i], REC_NEW[i]) }
}

pub fn raw_estimator(hip: f64, kxq0: f64, kxq1: f64, ooo: bool) -> HipEstimator {
    HipEstimator { hip_accum: hip, kxq0, kxq1, out_of_order: ooo }
}

fn nsd(i: u8) -> NumStdDev {
    match i {
        1 => NumStdDev::One,
        2 => NumStdDev::Two,
        _ => NumStdDev::Three,
    }
}

//@ props: C01 C17
//@ tier: quick
//@ timeout: 600
//@ functions: hll::estimator::get_rel_err
//@ bounds: every lg_k in 4..=21, both estimators (HIP / non-HIP), all three sigma levels (216 table lookups or sqrt formulas, all concrete)
//@ desc: the relative-error factor has the sign that makes lb <= estimate <= ub (upper: -1 < r <= 0, lower: r >= 0) and grows in magnitude with sigma, which is what nests the intervals
#[kani::proof]
#[kani::unwind(20)]
fn c01_hll_rel_err_signs_and_nesting() {
    let lg_k: u8 = kani::any();
    kani::assume(lg_k >= 4 && lg_k <= 21);
    let ooo: bool = kani::any();
    let u1 = get_rel_err(lg_k, true, ooo, NumStdDev::One);
    let u2 = get_rel_err(lg_k, true, ooo, NumStdDev::Two);
    let u3 = get_rel_err(lg_k, true, ooo, NumStdDev::Three);
    let l1 = get_rel_err(lg_k, false, ooo, NumStdDev::One);
    let l2 = get_rel_err(lg_k, false, ooo, NumStdDev::Two);
    let l3 = get_rel_err(lg_k, false, ooo, NumStdDev::Three);
    assert!(u1 <= 0.0 && u1 > -1.0 && u2 <= u1 && u2 > -1.0 && u3 <= u2 && u3 > -1.0, "upper-bound factors not in (-1,0] or not nested");
    assert!(l1 >= 0.0 && l2 >= l1 && l3 >= l2, "lower-bound factors negative or not nested");
    kani::cover!(lg_k == 4 && ooo);
    kani::cover!(lg_k == 21 && !ooo);
}

//@ props: C01 C17
//@ tier: quick
//@ timeout: 900
//@ functions: hll::estimator::HipEstimator::estimate
//@ functions: hll::estimator::HipEstimator::upper_bound
//@ functions: hll::estimator::HipEstimator::lower_bound
//@ bounds: HIP (in-order) estimator state with any finite hip_accum in [0, 2^62], lg_k in {4, 12} (table) and {13, 21} (formula), sigma 1..=3
//@ desc: lower_bound(s) <= estimate <= upper_bound(s) and the intervals are nested in s, for every accumulator value
#[kani::proof]
fn c01_hll_hip_bounds_order() {
    let hip: f64 = kani::any();
    kani::assume(hip >= 0.0 && hip <= 4.6e18);
    let sel: u8 = kani::any();
    kani::assume(sel < 4);
    let lg_k: u8 = [4u8, 12, 13, 21][sel as usize];
    let e = raw_estimator(hip, 16.0, 0.0, false);
    let est = e.estimate(lg_k, 0, 3);
    assert!(est == hip);
    let lb1 = e.lower_bound(lg_k, 0, 3, NumStdDev::One);
    let lb2 = e.lower_bound(lg_k, 0, 3, NumStdDev::Two);
    let lb3 = e.lower_bound(lg_k, 0, 3, NumStdDev::Three);
    let ub1 = e.upper_bound(lg_k, 0, 3, NumStdDev::One);
    let ub2 = e.upper_bound(lg_k, 0, 3, NumStdDev::Two);
    let ub3 = e.upper_bound(lg_k, 0, 3, NumStdDev::Three);
    assert!(lb3 <= lb2 && lb2 <= lb1 && lb1 <= est, "HLL lower bounds not ordered / nested");
    assert!(est <= ub1 && ub1 <= ub2 && ub2 <= ub3, "HLL upper bounds not ordered / nested");
    kani::cover!(hip > 1000.0 && lg_k == 13);
}
