//@@ attach: hll/estimator.rs
// HipEstimator: recorder stub used by the register-model harnesses, and the deterministic clauses of
// C01 (ordering and nesting of the bounds) for HLL arrays.
#![allow(static_mut_refs)]
use super::*;

pub static mut REC_N: usize = 0;
pub static mut REC_OLD: [u8; 8] = [0; 8];
pub static mut REC_NEW: [u8; 8] = [0; 8];
pub static mut REC_LGK: [u8; 8] = [0; 8];

/// stand-in for HipEstimator::update in register-model harnesses: records the call, touches no float
pub fn rec_update(_e: &mut HipEstimator, lg_config_k: u8, old_value: u8, new_value: u8) {
    unsafe {
        if REC_N < 8 {
            REC_OLD[REC_N] = old_value;
            REC_NEW[REC_N] = new_value;
            REC_LGK[REC_N] = lg_config_k;
        }
        REC_N += 1;
    }
}

pub fn rec_reset() {
    unsafe {
        REC_N = 0;
    }
}
pub fn rec_count() -> usize {
    unsafe { REC_N }
}
pub fn rec_get(i: usize) -> (u8, u8, u8) {
    unsafe { (REC_LGK[i], REC_OLD[i], REC_NEW[i]) }
}

pub fn raw_estimator(hip: f64, kxq0: f64, kxq1: f64, ooo: bool) -> HipEstimator {
    HipEstimator { hip_accum: hip, kxq0, kxq1, out_of_order: ooo }
}

fn nsd(i: u8) -> NumStdDev {
    match i {
        1 => NumStdDev::One,
        2 => NumStdDev::Two,
        _ => NumStdDev::Three,
    }
}

//@ props: C01 C17
//@ tier: quick
//@ timeout: 600
//@ functions: hll::estimator::get_rel_err
//@ bounds: every lg_k in 4..=21, both estimators (HIP / non-HIP), all three sigma levels (216 table lookups or sqrt formulas, all concrete)
//@ desc: the relative-error factor has the sign that makes lb <= estimate <= ub (upper: -1 < r <= 0, lower: r >= 0) and grows in magnitude with sigma, which is what nests the intervals
#[kani::proof]
#[kani::unwind(20)]
fn c01_hll_rel_err_signs_and_nesting() {
    let lg_k: u8 = kani::any();
    kani::assume(lg_k >= 4 && lg_k <= 21);
    let ooo: bool = kani::any();
    let u1 = get_rel_err(lg_k, true, ooo, NumStdDev::One);
    let u2 = get_rel_err(lg_k, true, ooo, NumStdDev::Two);
    let u3 = get_rel_err(lg_k, true, ooo, NumStdDev::Three);
    let l1 = get_rel_err(lg_k, false, ooo, NumStdDev::One);
    let l2 = get_rel_err(lg_k, false, ooo, NumStdDev::Two);
    let l3 = get_rel_err(lg_k, false, ooo, NumStdDev::Three);
    assert!(u1 <= 0.0 && u1 > -1.0 && u2 <= u1 && u2 > -1.0 && u3 <= u2 && u3 > -1.0, "upper-bound factors not in (-1,0] or not nested");
    assert!(l1 >= 0.0 && l2 >= l1 && l3 >= l2, "lower-bound factors negative or not nested");
    kani::cover!(lg_k == 4 && ooo);
    kani::cover!(lg_k == 21 && !ooo);
}

fn advertised_rse_case(lg_k: u8, s: u8, ub: bool) {
    let k = (1u64 << lg_k) as f64;
    let hip = get_rel_err(lg_k, ub, false, nsd(s));
    let non = get_rel_err(lg_k, ub, true, nsd(s));
    let (ah, an) = (if hip < 0.0 { -hip } else { hip }, if non < 0.0 { -non } else { non });
    assert!(an >= ah, "out-of-order (composite) interval narrower than the HIP interval");
    if lg_k > 12 {
        let ss = (s as f64) * (s as f64);
        let (h2, n2) = (ah * ah * k, an * an * k);
        assert!(h2 >= ss * 0.693147 * 0.999 && h2 <= ss * 0.693147 * 1.001, "HIP RSE is not sqrt(ln 2 / k)");
        assert!(n2 >= ss * 1.079442 * 0.999 && n2 <= ss * 1.079442 * 1.001, "non-HIP RSE is not sqrt((3 ln 2 - 1) / k)");
    }
    kani::cover!(true);
}

macro_rules! advertised_rse {
    ($name:ident, $lgk:expr, $s:expr, $ub:expr) => {
        #[kani::proof]
        #[kani::unwind(5)]
        fn $name() {
            advertised_rse_case($lgk, $s, $ub);
        }
    };
}

//@ family: advertised_rse
//@ props: C01
//@ tier: thorough
//@ timeout: 900
//@ functions: hll::estimator::get_rel_err
//@ unwind: 5
//@ bounds: one concrete (lg_k, sigma, bound) per instance - lg_k 13, 17, 21 on the analytic branch (two float divisions by a square root each: more do not decide within minutes) - both estimators; the table branch (lg_k <= 12) is c01_hll_rel_err_tables_hip_vs_composite
//@ desc: the advertised relative standard error: for lg_k > 12 the factor is s * RSE with RSE^2 * k = ln 2 (HIP, in-order) and 3 ln 2 - 1 (composite: out-of-order / merged sketches) to 0.1 percent, and the out-of-order interval is the wider one
advertised_rse!(c01_hll_advertised_rse_lgk13_s1_lb, 13, 1, false); //@ tier: quick
advertised_rse!(c01_hll_advertised_rse_lgk13_s2_ub, 13, 2, true);
advertised_rse!(c01_hll_advertised_rse_lgk17_s3_lb, 17, 3, false);
advertised_rse!(c01_hll_advertised_rse_lgk21_s1_ub, 21, 1, true); //@ tier: quick
//@ endfamily: x

//@ props: C01
//@ tier: quick
//@ timeout: 300
//@ functions: hll::estimator::get_rel_err
//@ bounds: all 4 x 27 table entries (lg_k 4..=12, sigma 1..=3, both bounds), concrete loop
//@ desc: at every tabulated lg_k the out-of-order (composite estimator) interval is at least as wide as the in-order (HIP) one - a swap of the HIP and non-HIP tables or arms is detected
#[kani::proof]
#[kani::unwind(12)]
fn c01_hll_rel_err_tables_hip_vs_composite() {
    let mut lg_k = 4u8;
    while lg_k <= 12 {
        let mut s = 1u8;
        while s <= 3 {
            let mut ub = 0;
            while ub < 2 {
                let hip = get_rel_err(lg_k, ub == 1, false, nsd(s));
                let non = get_rel_err(lg_k, ub == 1, true, nsd(s));
                let (ah, an) = (if hip < 0.0 { -hip } else { hip }, if non < 0.0 { -non } else { non });
                assert!(an >= ah, "out-of-order (composite) interval narrower than the HIP interval");
                ub += 1;
            }
            s += 1;
        }
        lg_k += 1;
    }
    kani::cover!(true);
}

/// ordering at one sigma level and nesting against the next, for a concrete lg_k (two or three symbolic
/// float divisions per harness: more do not decide within minutes)
fn hip_bounds_case(lg_k: u8, s: u8, ooo: bool) {
    let hip: f64 = kani::any();
    kani::assume(hip >= 0.0 && hip <= 4.6e18);
    let e = raw_estimator(hip, 16.0, 0.0, false);
    let est = e.estimate(lg_k, 0, 3);
    assert!(est == hip);
    let _ = ooo;
    let lb = e.lower_bound(lg_k, 0, 3, nsd(s));
    let ub = e.upper_bound(lg_k, 0, 3, nsd(s));
    assert!(lb <= est, "HLL lower bound above the estimate");
    assert!(est <= ub, "HLL upper bound below the estimate");
    if s < 3 {
        let lb_next = e.lower_bound(lg_k, 0, 3, nsd(s + 1));
        let ub_next = e.upper_bound(lg_k, 0, 3, nsd(s + 1));
        assert!(lb_next <= lb && ub <= ub_next, "HLL bounds are not nested in sigma");
    }
    kani::cover!(hip > 1000.0);
}

macro_rules! hip_bounds {
    ($name:ident, $lgk:expr, $s:expr) => {
        #[kani::proof]
        fn $name() {
            hip_bounds_case($lgk, $s, false);
        }
    };
}

//@ family: hip_bounds
//@ props: C01 C17
//@ tier: thorough
//@ timeout: 1800
//@ functions: hll::estimator::HipEstimator::estimate
//@ functions: hll::estimator::HipEstimator::upper_bound
//@ functions: hll::estimator::HipEstimator::lower_bound
//@ functions: hll::estimator::get_rel_err
//@ bounds: HIP (in-order) estimator with any finite hip_accum in [0, 4.6e18]; one concrete (lg_k, sigma) per instance: lg_k in {4, 12} (tables) and {13, 21} (formula)
//@ desc: lower_bound(s) <= estimate <= upper_bound(s), and the s+1 interval contains the s interval, for every accumulator value
hip_bounds!(c01_hll_hip_bounds_lgk4_s1, 4, 1); //@ tier: quick
hip_bounds!(c01_hll_hip_bounds_lgk4_s2, 4, 2);
hip_bounds!(c01_hll_hip_bounds_lgk4_s3, 4, 3);
hip_bounds!(c01_hll_hip_bounds_lgk12_s2, 12, 2); //@ tier: quick
hip_bounds!(c01_hll_hip_bounds_lgk13_s1, 13, 1); //@ tier: quick
hip_bounds!(c01_hll_hip_bounds_lgk21_s2, 21, 2);
//@ endfamily: x

//@ props: C02 C03 C17
//@ tier: quick
//@ timeout: 900
//@ functions: hll::estimator::HipEstimator::update
//@ functions: hll::estimator::HipEstimator::update_kxq
//@ functions: hll::estimator::inv_pow2
//@ functions: hll::estimator::HipEstimator::new
//@ bounds: estimator of lg_k = 4 over a register file of fifteen 2s and one register changing old -> new for six boundary pairs ((0,1), (5,31), (31,32), (32,63), (0,63), (40,41)); HIP accumulator (any value in [0, 1e9]) and the out-of-order flag symbolic
//@ desc: HipEstimator::update keeps kxq0 + kxq1 equal to the sum of 2^-register (values < 32 in kxq0, >= 32 in kxq1 - both sums are exact in f64), adds k / (kxq0 + kxq1) to the HIP accumulator when in order and leaves it untouched when out of order
#[kani::proof]
#[kani::unwind(18)]
fn c02_estimator_update_tracks_registers() {
    // register files (16 registers) given by how many registers hold each value; concrete per case so that
    // the exact float sums are constants - symbolic kxq values make this a float-adder equivalence proof
    // that does not decide in 15 min. The HIP accumulator and the out-of-order flag stay symbolic.
    let cases: [(u8, u8); 6] = [(0, 1), (5, 31), (31, 32), (32, 63), (0, 63), (40, 41)];
    let hip: f64 = kani::any();
    kani::assume(hip >= 0.0 && hip <= 1.0e9);
    let ooo: bool = kani::any();
    let mut c = 0;
    while c < 6 {
        let (old, new) = cases[c];
        // 15 registers at value 2 (1/4 each) and one at `old`
        let inv = |v: u8| -> f64 { f64::from_bits(((1023 - v as u64) & 0x7ff) << 52) };
        let mut kxq0 = 15.0 * 0.25;
        let mut kxq1 = 0.0;
        if old < 32 {
            kxq0 += inv(old);
        } else {
            kxq1 += inv(old);
        }
        let mut e = raw_estimator(hip, kxq0, kxq1, false);
        if ooo {
            e.set_out_of_order(true);
        }
        let hip0 = e.hip_accum();
        e.update(4, old, new);
        let want0 = 15.0 * 0.25 + if new < 32 { inv(new) } else { 0.0 };
        let want1 = if new >= 32 { inv(new) } else { 0.0 };
        assert!(e.kxq0() == want0, "kxq0 is not the sum of 2^-register over registers < 32");
        assert!(e.kxq1() == want1, "kxq1 is not the sum of 2^-register over registers >= 32");
        if ooo {
            assert!(e.hip_accum() == hip0, "HIP accumulator changed while out of order");
        } else {
            assert!(e.hip_accum() == hip + 16.0 / (kxq0 + kxq1), "HIP increment is not k / (kxq0 + kxq1) taken before the register change");
        }
        c += 1;
    }
    let fresh = HipEstimator::new(4);
    assert!(fresh.kxq0() == 16.0 && fresh.kxq1() == 0.0 && fresh.hip_accum() == 0.0 && !fresh.is_out_of_order());
    kani::cover!(ooo);
    kani::cover!(!ooo && hip > 1.0);
}
