#!/usr/bin/env python3
"""Lists functions of /repo/datasketches/src that no harness declares in its //@ functions lists."""
import os, re, sys
sys.path.insert(0, "/verif/lib")
import driver
declared = set()
for h in driver.load_registry():
    for f in h.functions:
        declared.add(f.split("::")[-1])
SRC = "/repo/datasketches/src"
skip_files = ("compression_data.rs", "composite_interpolation.rs", "kxp_byte_lookup.rs", "inv_pow2_table.rs")
for root, _, files in os.walk(SRC):
    for fn in sorted(files):
        if not fn.endswith(".rs") or fn in skip_files:
            continue
        p = os.path.join(root, fn)
        txt = open(p).read()
        txt = txt.split("#[cfg(test)]")[0]
        names = re.findall(r"^\s*(?:pub(?:\([a-z]+\))?\s+)?(?:const\s+)?fn\s+(\w+)", txt, re.M)
        miss = [n for n in names if n not in declared and not re.match(r"(un)?pack_bits_\d+$", n)]
        if miss:
            print(os.path.relpath(p, SRC), ":", " ".join(miss))
