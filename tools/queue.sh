#!/bin/bash
# background job queue: lines of /tmp/vq are "<id> <tier> [--only x]"; results in /tmp/vlog/<id>.<tier>[.<only>].log
mkdir -p /tmp/vlog; touch /tmp/vq
while true; do
  line=$(head -n 1 /tmp/vq)
  if [ -z "$line" ]; then sleep 5; continue; fi
  sed -i '1d' /tmp/vq
  set -- $line
  id=$1; tier=$2; shift 2
  tag=$(echo "$*" | tr -c 'a-zA-Z0-9_' '_')
  /verif/check $id --tier $tier "$@" > /tmp/vlog/$id.$tier.$tag.log 2>&1
  echo "$(date +%H:%M:%S) $line exit=$?" >> /tmp/vlog/queue.done
done
