#!/usr/bin/env python3
"""Removes /var/tmp/dsverif.* directories that no running process references (orphans of killed runs)."""
import os, shutil, glob
cmds = ""
for pid in os.listdir("/proc"):
    if pid.isdigit():
        try:
            cmds += open("/proc/%s/cmdline" % pid).read().replace("\0", " ") + "\n"
            cmds += os.readlink("/proc/%s/cwd" % pid) + "\n"
        except OSError:
            pass
for d in glob.glob("/var/tmp/dsverif.*"):
    if d not in cmds:
        shutil.rmtree(d, ignore_errors=True)
        print("removed", d)
