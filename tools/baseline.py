#!/usr/bin/env python3
"""Runs the repository's test suite (guard off - there are no hooks in /repo) and compares with BASELINE.json."""
import json, re, subprocess, sys
base = json.load(open("/root/.vp/BASELINE.json"))
out = subprocess.run("cd /repo && cargo test --workspace --no-fail-fast --offline 2>&1", shell=True, capture_output=True, text=True).stdout
passed = set()
cur = None
for ln in out.splitlines():
    m = re.match(r"\s+Running (?:unittests )?(\S+)", ln)
    if m:
        p = m.group(1)
        cur = re.sub(r".*/", "", p).replace(".rs", "")
        if cur == "lib":
            cur = None
        continue
    m = re.match(r"test (\S+)(?: - should panic)? \.\.\. ok", ln)
    if m:
        name = m.group(1)
        passed.add("datasketches::" + (cur + "::" if cur else "") + name)
missing = [t for t in base["stable_pass"] if t not in passed]
print("stable tests passing: %d / %d" % (len(base["stable_pass"]) - len(missing), len(base["stable_pass"])))
for t in missing:
    print("  MISSING:", t)
sys.exit(1 if missing else 0)
