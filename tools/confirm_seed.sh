#!/bin/bash
# usage: confirm_seed.sh <name e.g. C04_a> <property>   (uses /tmp/seed_<name>/{patch.diff,demo.rs,notes.md})
# Confirms in a fresh scratch worktree: (1) suite still 218/218 with the change, (2) demo fails with it, (3) passes without.
set -u
name=$1; prop=$2
src=/tmp/seed_$name
wt=/tmp/confirm_$name
rm -rf $wt; git -C /repo worktree prune; git -C /repo worktree add -f $wt HEAD > /dev/null 2>&1 || exit 3
export CARGO_TARGET_DIR=$wt/target CARGO_NET_OFFLINE=true
out=/verif/seeded/$name; mkdir -p $out
cp $src/patch.diff $out/patch.diff; cp $src/demo.rs $out/demo.rs; cp $src/notes.md $out/notes.md 2>/dev/null
cd $wt
# where does the demo go? integration test by default; a unit-test demo says so in its header ("append to <file>")
target=$(grep -o -m1 'datasketches/src/[a-z_/0-9]*\.rs' $src/demo.rs || true)
if grep -qi "append" $src/demo.rs && [ -n "$target" ]; then
  cat $src/demo.rs >> $wt/$target; mode="unit:$target"; cmd="cargo test -p datasketches --offline --lib seed_demo"
else
  cp $src/demo.rs $wt/datasketches/tests/seed_demo.rs; mode="integration"; cmd="cargo test -p datasketches --offline --test seed_demo"
fi
$cmd > $out/demo_without.log 2>&1; rc_without=$?
git apply $src/patch.diff || { echo "patch does not apply"; exit 4; }
$cmd > $out/demo_with.log 2>&1; rc_with=$?
base=$(python3 /tmp/tools/baseline.py $wt | head -1)
cd /; git -C /repo worktree remove --force $wt; rm -rf $wt
python3 - <<PY
import json
json.dump({"property":"$prop","name":"$name","demo_mode":"$mode","demo_cmd":"$cmd",
 "demo_exit_without_change":$rc_without,"demo_exit_with_change":$rc_with,"baseline_with_change":"$base",
 "confirmed": ($rc_without==0 and $rc_with!=0 and "218 / 218" in "$base")}, open("$out/meta.json","w"), indent=1)
PY
cat $out/meta.json
