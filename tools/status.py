#!/usr/bin/env python3
"""Aggregates the latest result per harness from driver logs (default: /tmp/vlog/*.log /tmp/*.log)."""
import glob, os, re, sys
sys.path.insert(0, "/verif/lib")
import driver
files = sorted(glob.glob("/tmp/vlog/*.log") + glob.glob("/tmp/*.log"), key=os.path.getmtime)
last = {}
for f in files:
    for ln in open(f, errors="replace"):
        m = re.match(r"\[(C\d+)\] (\S+)\s+(held|failed|inconclusive)\s+wall=\s*([\d.]+)s.*?(covers=\S+)\s*(.*)$", ln)
        if m:
            last[m.group(2)] = (m.group(3), float(m.group(4)), m.group(6)[:60], os.path.basename(f))
hs = driver.load_registry()
byprop = {}
for h in hs:
    for p in h.props:
        byprop.setdefault(p, []).append(h)
only = sys.argv[1:] 
for p in sorted(byprop):
    if only and p not in only:
        continue
    q = [h for h in byprop[p] if h.tier == "quick"]
    print("== %s quick=%d total=%d" % (p, len(q), len(byprop[p])))
    for h in byprop[p]:
        st = last.get(h.name, ("-", 0, "", ""))
        print("   %-8s %-46s %-12s %7.1fs %s" % (h.tier, h.name, st[0], st[1], st[2]))
