#!/usr/bin/env python3
"""Compiles the overlay with ALL harness files attached (no verification) to catch harness compile errors."""
import os, shutil, subprocess, sys, tempfile
sys.path.insert(0, "/verif/lib")
import driver
scratch = tempfile.mkdtemp(prefix="dsverif.compile.", dir="/var/tmp")
try:
    ds, _ = driver.build_overlay(scratch, None)
    r = subprocess.run("cargo kani -Z stubbing -Z unstable-options --only-codegen --target-dir %s/t 2>&1" % scratch, shell=True, cwd=ds, env=driver.ENV, capture_output=True, text=True)
    out = r.stdout
    errs = [l for l in out.splitlines() if l.startswith("error")]
    if errs:
        lines = out.splitlines()
        for i, l in enumerate(lines):
            if l.startswith("error"):
                print("\n".join(lines[i:i + 16]))
                print("----")
        sys.exit(1)
    print("all harness files compile")
finally:
    shutil.rmtree(scratch, ignore_errors=True)
