#!/usr/bin/env python3
"""Fold '[Cxx] <harness> <result> wall= ..s' lines of the given log files (later files win) into /verif/timings.json."""
import json, os, re, sys
P = os.path.join(os.path.dirname(os.path.abspath(__file__)), "..", "timings.json")
t = json.load(open(P)) if os.path.exists(P) else {}
rx = re.compile(r"^\[\w+\]\s+(\S+)\s+(held|failed|inconclusive)\s+wall=\s*([\d.]+)s solver=\s*([\d.]+)s checks=(\d+) covers=\S+(?: rss=(\d+)MB)?\s*(.*)$")
for fn in sys.argv[1:]:
    for ln in open(fn, errors="replace"):
        m = rx.match(ln)
        if m:
            name, res, wall, solver, checks, rss, why = m.groups()
            e = {"result": res, "wall_s": float(wall), "solver_s": float(solver), "checks": int(checks), "rss_mb": int(rss or 0)}
            if res != "held":
                e["why"] = why[:160]
            # a held measurement is not overwritten by a later resource failure under load
            if t.get(name, {}).get("result") == "held" and res == "inconclusive" and os.environ.get("FORCE") != "1":
                continue
            t[name] = e
json.dump(t, open(P, "w"), indent=0, sort_keys=True)
print(len(t), "harnesses with timings")
