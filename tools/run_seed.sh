#!/bin/bash
# usage: run_seed.sh <name> <property> [extra check args]   - runs the property's check against a scratch
# worktree of /repo with the seeded patch applied (VERIF_REPO), so /repo itself is never modified.
set -u
name=$1; prop=$2; shift 2
wt=/tmp/mut_$name
rm -rf $wt; git -C /repo worktree prune; git -C /repo worktree add -f $wt HEAD > /dev/null 2>&1 || exit 3
( cd $wt && git apply /verif/seeded/$name/patch.diff ) || { echo "patch does not apply"; git -C /repo worktree remove --force $wt; exit 4; }
VERIF_EVIDENCE_DIR=/verif/seeded/$name/evidence VERIF_REPLAY_DIR=/verif/seeded/$name/replays VERIF_REPO=$wt /verif/check $prop "$@" > /verif/seeded/$name/check_$prop.log 2>&1
rc=$?
git -C /repo worktree remove --force $wt; rm -rf $wt
echo "seed $name property $prop exit=$rc"
grep -h "VIOLATION\|INCONCLUSIVE\|SUMMARY" /verif/seeded/$name/check_$prop.log | cut -c1-200
exit $rc
