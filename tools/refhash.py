"""Reference MurmurHash3 x64 128 / XXH64 in Python (used only to pick concrete harness constants)."""
M=(1<<64)-1
def rotl(x,r): return ((x<<r)|(x>>(64-r)))&M
def fmix(k):
    k^=k>>33; k=(k*0xff51afd7ed558ccd)&M; k^=k>>33; k=(k*0xc4ceb9fe1a85ec53)&M; k^=k>>33; return k
def murmur(data,seed):
    C1=0x87c37b91114253d5; C2=0x4cf5ad432745937f
    h1=h2=seed; n=len(data)
    for i in range(n//16):
        k1=int.from_bytes(data[16*i:16*i+8],'little'); k2=int.from_bytes(data[16*i+8:16*i+16],'little')
        k1=(k1*C1)&M; k1=rotl(k1,31); k1=(k1*C2)&M; h1^=k1
        h1=rotl(h1,27); h1=(h1+h2)&M; h1=(h1*5+0x52dce729)&M
        k2=(k2*C2)&M; k2=rotl(k2,33); k2=(k2*C1)&M; h2^=k2
        h2=rotl(h2,31); h2=(h2+h1)&M; h2=(h2*5+0x38495ab5)&M
    t=data[(n//16)*16:]
    if len(t)>8:
        k2=int.from_bytes(t[8:],'little'); k2=(k2*C2)&M; k2=rotl(k2,33); k2=(k2*C1)&M; h2^=k2
    if len(t)>0:
        k1=int.from_bytes(t[:8],'little'); k1=(k1*C1)&M; k1=rotl(k1,31); k1=(k1*C2)&M; h1^=k1
    h1^=n; h2^=n; h1=(h1+h2)&M; h2=(h2+h1)&M; h1=fmix(h1); h2=fmix(h2); h1=(h1+h2)&M; h2=(h2+h1)&M
    return h1,h2
if __name__=="__main__":
    assert murmur(b"The quick brown fox jumps over the lazy dog",0)==(0xe34bbc7bbc071b6c,0x7a433ca9c49a9347)
    seeds=[0x123456789abcdef0,77]
    for x in range(1,40):
        print(x,[murmur(x.to_bytes(8,'little'),s)[0]%3 for s in seeds])
