#!/bin/sh
# usage: tools/runall.sh <tier> <ids...>  - runs checks one after another, logs under /tmp/vlog
mkdir -p /tmp/vlog
tier=$1; shift
for id in "$@"; do
  /verif/check $id --tier $tier > /tmp/vlog/$id.$tier.log 2>&1
  echo "$id exit=$?" >> /tmp/vlog/summary.$tier.txt
done
